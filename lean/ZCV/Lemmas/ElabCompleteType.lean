import ZCV.Lemmas.ElabCompleteMember
/-!
C10, completeness, step 4: type declarations.  The type table of the loader corresponds (`TypesRel`) to the signature
`Γ` of the specification; a rule-abiding `<abstracttype>` / `<sectiontype>` element is read successfully and extends
the table by the entry the specification predicts.
-/
namespace ZCV.SchemaRules
open ZCV ZCV.Elab
open ZCV.Cfg (VI SectInfo Default)

/-! ### signature vs. type table -/

def EntryRel : TySig → EEntry → Prop
  | .abstract, .abstract_ _ _ _ => True
  | .concrete kt ms, .concrete t => t.keytype = kt ∧ Pointwise MemberRel ms t.children
  | _, _ => False

def TypesRel (Γ : Ctx) (ts : List (Str × EEntry)) : Prop :=
  Pointwise (fun (g : Str × TySig) (t : Str × EEntry) => g.1 = t.1 ∧ EntryRel g.2 t.2) Γ ts

theorem TypesRel.names {Γ : Ctx} {ts : List (Str × EEntry)} (h : TypesRel Γ ts) : Γ.names = ts.map (·.1) :=
  Pointwise.map_eq (fun _ _ h => h.1) h

theorem TypesRel.find {Γ : Ctx} {ts : List (Str × EEntry)} (h : TypesRel Γ ts) (n : Str) :
    (Γ.find? (·.1 == n) = none ∧ ts.find? (·.1 == n) = none) ∨
    (∃ sig e, Γ.find? (·.1 == n) = some (n, sig) ∧ ts.find? (·.1 == n) = some (n, e) ∧ EntryRel sig e) := by
  induction h with
  | nil => exact Or.inl ⟨rfl, rfl⟩
  | @cons g t l l' hgt _ ih =>
    obtain ⟨gn, gs⟩ := g
    obtain ⟨tn, te⟩ := t
    obtain ⟨h1, h2⟩ := hgt
    simp only at h1 h2
    subst h1
    by_cases hk : gn = n
    · subst hk
      right
      exact ⟨gs, te, by simp, by simp, h2⟩
    · have : (gn == n) = false := by simpa using hk
      simp only [List.find?_cons, this]
      exact ih

theorem TypesRel.lookup {Γ : Ctx} {ts : List (Str × EEntry)} (h : TypesRel Γ ts) {n : Str} {sig : TySig}
    (hl : Γ.lookup n = some sig) : ∃ e, ts.find? (·.1 == n) = some (n, e) ∧ EntryRel sig e := by
  unfold Ctx.lookup at hl
  rcases h.find n with ⟨h1, _⟩ | ⟨sig', e, h1, h2, h3⟩
  · rw [h1] at hl; cases hl
  · rw [h1] at hl
    simp only [Option.map_some, Option.some.injEq] at hl
    subst hl
    exact ⟨e, h2, h3⟩

theorem TypesRel.snoc {Γ : Ctx} {ts : List (Str × EEntry)} (h : TypesRel Γ ts) {n : Str} {sig : TySig} {e : EEntry}
    (he : EntryRel sig e) : TypesRel (Γ ++ [(n, sig)]) (ts ++ [(n, e)]) :=
  Pointwise.snoc h ⟨rfl, he⟩

/-- a map over the table that keeps the keys, leaves concrete entries alone and keeps abstract ones abstract -/
theorem TypesRel.map_abstract {Γ : Ctx} {ts : List (Str × EEntry)} (h : TypesRel Γ ts) (f : Str × EEntry → Str × EEntry)
    (hf : ∀ p, (f p).1 = p.1 ∧ ((∀ t, p.2 = .concrete t → (f p).2 = .concrete t) ∧
      (∀ a b c, p.2 = .abstract_ a b c → ∃ a' b' c', (f p).2 = .abstract_ a' b' c'))) :
    TypesRel Γ (ts.map f) := by
  induction h with
  | nil => exact .nil
  | @cons g t l l' hgt _ ih =>
    refine .cons ⟨by rw [(hf t).1]; exact hgt.1, ?_⟩ ih
    obtain ⟨_, hc, ha⟩ := hf t
    have hrel := hgt.2
    cases hg : g.2 with
    | abstract =>
      rw [hg] at hrel
      cases ht : t.2 with
      | concrete t0 => rw [ht] at hrel; exact hrel.elim
      | abstract_ a b c =>
        obtain ⟨a', b', c', e⟩ := ha a b c ht
        rw [e]; trivial
    | concrete kt ms =>
      rw [hg] at hrel
      cases ht : t.2 with
      | concrete t0 => rw [hc t0 ht]; rw [ht] at hrel; exact hrel
      | abstract_ a b c => rw [ht] at hrel; exact hrel.elim

/-! ### `lower` on normalised basic-keys -/

theorem lowerChar_asciiLowerChar_small :
    ∀ n : Fin 128, lowerChar (asciiLowerChar (Char.ofNat n.val)) = asciiLowerChar (Char.ofNat n.val) := by
  decide +kernel

theorem isKeyChar_small {c : Char} (h : DTSpec.isKeyChar c = true) : c.toNat < 128 := by
  simp only [DTSpec.isKeyChar, isAsciiLetter, isAsciiDigit, inRange, Bool.or_eq_true, Bool.and_eq_true,
    decide_eq_true_eq, beq_iff_eq] at h
  have h1 : 'z'.toNat = 122 := rfl
  have h2 : 'Z'.toNat = 90 := rfl
  have h3 : '9'.toNat = 57 := rfl
  rcases h with (((h | h) | h) | h) | h
  · rcases h with h | h <;> omega
  · omega
  · subst h; decide
  · subst h; decide
  · subst h; decide

theorem lowerChar_asciiLowerChar {c : Char} (h : c.toNat < 128) : lowerChar (asciiLowerChar c) = asciiLowerChar c := by
  have := lowerChar_asciiLowerChar_small ⟨c.toNat, h⟩
  simpa using this

theorem isAsciiLetter_isKeyChar {c : Char} (h : isAsciiLetter c = true) : DTSpec.isKeyChar c = true := by
  simp [DTSpec.isKeyChar, h]

theorem lower_asciiLower {b : Str} (h : DTSpec.isBasicKey b = true) : lower (asciiLower b) = asciiLower b := by
  cases b with
  | nil => rfl
  | cons c t =>
    simp only [DTSpec.isBasicKey, Bool.and_eq_true, List.all_eq_true] at h
    simp only [lower, asciiLower, List.map_map]
    apply List.map_congr_left
    intro x hx
    simp only [Function.comp]
    apply lowerChar_asciiLowerChar
    rcases List.mem_cons.1 hx with rfl | hx
    · exact isKeyChar_small (isAsciiLetter_isKeyChar h.1)
    · exact isKeyChar_small (h.2 x hx)

/-! ### `<abstracttype>` -/

theorem map_append_fresh {β} (pre : List (Str × β)) (y : Str × β) (f : Str × β → Str × β)
    (hf : ∀ x ∈ pre, f x = x) : (pre ++ [y]).map f = pre ++ [f y] := by
  rw [List.map_append, List.map_cons, List.map_nil]
  congr 1
  conv => rhs; rw [← List.map_id pre]
  exact List.map_congr_left hf

theorem nestingOK_abstract_cases {t : Str} (hn : nestingOK "abstracttype".toList t = true)
    (hc : Gen.cdataTags.contains t = true) : t = "description".toList := by
  rcases cdataTag_cases hc with rfl | rfl | rfl | rfl
  · rfl
  · exact absurd hn (by decide +kernel)
  · exact absurd hn (by decide +kernel)
  · exact absurd hn (by decide +kernel)

theorem charactersTag_description (isC : Bool) (a : Attrs) (data : Str) (st : PSt) :
    charactersTag isC "description".toList a data st = markDesc isC st := by
  unfold charactersTag
  have h1 : ("description".toList == "default".toList) = false := by decide +kernel
  simp only [h1, Bool.false_eq_true, ↓reduceIte, beq_self_eq_true]

theorem charactersTag_example (isC : Bool) (a : Attrs) (data : Str) (st : PSt) :
    charactersTag isC "example".toList a data st = markExample st := by
  unfold charactersTag
  have h1 : ("example".toList == "default".toList) = false := by decide +kernel
  have h2 : ("example".toList == "description".toList) = false := by decide +kernel
  simp only [h1, h2, Bool.false_eq_true, ↓reduceIte, beq_self_eq_true]

/-- a `<description>` / `<example>` element (text only) below any element: the loader calls the marking function -/
theorem visitElem_note {env : Env} {h : Hooks} {d : DocKind} {parent : Str} {st : PSt} {t : Str} {a : Attrs}
    {c : List Node} (hn : nestingOK parent t = true) (hc : Gen.cdataTags.contains t = true)
    (htxt : c.all isText = true) :
    visitElem env h d (some parent) st (.elem t a c) = charactersTag (isComp d) t a (strip (textOf c)) st := by
  obtain ⟨h1, h2⟩ := cdataTag_dispatch d hc
  rw [visitElem_cdata_eq (nestingOK_check hn) h1 h2 hc, collectText_of_text t c htxt]
  rfl

/-- marking the (last) abstract entry of the table -/
theorem markDesc_abstract {isC : Bool} {st : PSt} {n nm : Str} {subs : List Str} {pre : List (Str × EEntry)}
    {rest : List Frame} {d : Bool} (hfresh : n ∉ pre.map (·.1)) (hs : st.stack = .atype n :: rest)
    (ht : st.es.types = pre ++ [(n, .abstract_ nm subs d)]) (hd : (d && !isC) = false) :
    markDesc isC st = .ok { st with es := { st.es with types := pre ++ [(n, .abstract_ nm subs true)] } } := by
  have hfind : st.es.types.find? (·.1 == n) = some (n, .abstract_ nm subs d) := by
    rw [ht]; exact find_fst_append_fresh _ _ _ hfresh
  unfold markDesc
  rw [hs]
  simp only [hfind, hd, Bool.false_eq_true, ↓reduceIte]
  congr 3
  rw [ht, map_append_fresh]
  · simp
  · intro x hx
    have : x.1 ≠ n := fun e => hfresh (List.mem_map.2 ⟨x, hx, e⟩)
    obtain ⟨k, e⟩ := x
    have hk : (k == n) = false := by simpa using this
    simp only [hk, Bool.false_eq_true, ↓reduceIte]

/-- the body of an `<abstracttype>`: at most one `<description>`, which sets the flag of the (last) table entry -/
theorem abstractBody_ok {env : Env} {h : Hooks} {dk : DocKind} {parent : Str}
    (hpar : ∀ t, nestingOK parent t = true → Gen.cdataTags.contains t = true → t = "description".toList)
    (n nm : Str) (subs : List Str) (pre : List (Str × EEntry))
    (rest : List Frame) (hfresh : n ∉ pre.map (·.1)) :
    ∀ (c : List Node) (st : PSt) (d : Bool), st.stack = .atype n :: rest →
      st.es.types = pre ++ [(n, .abstract_ nm subs d)] → leafBodyOK parent c = true →
      OnceIf (isComp dk) d "description".toList c →
      ∃ d', visitChildren env h dk parent st c =
        .ok { st with es := { st.es with types := pre ++ [(n, .abstract_ nm subs d')] } }
  | [], st, d, _, ht, _, _ => ⟨d, by rw [visitChildren_nil', ← ht]⟩
  | .text s :: r, st, d, hs, ht, hb, ho => by
    simp only [leafBodyOK, List.all_cons, Bool.and_eq_true] at hb
    have hbl : (strip s).isEmpty = true := hb.1
    obtain ⟨d', h1⟩ := abstractBody_ok hpar n nm subs pre rest hfresh r st d hs ht hb.2 ho.text
    exact ⟨d', by rw [visitChildren_text, if_pos hbl]; exact h1⟩
  | .elem t a c0 :: r, st, d, hs, ht, hb, ho => by
    simp only [leafBodyOK, List.all_cons, Bool.and_eq_true] at hb
    obtain ⟨hb0, hbr⟩ := hb
    simp only [cdataOK, Bool.and_eq_true] at hb0
    obtain ⟨⟨hn, hc⟩, htxt⟩ := hb0
    have htag := hpar t hn hc
    subst htag
    obtain ⟨hf, ho1⟩ := ho.same
    rw [visitChildren_elem, visitElem_note hn hc htxt, charactersTag_description,
      markDesc_abstract hfresh hs ht hf]
    simp only [bind, Except.bind]
    obtain ⟨d', h1⟩ := abstractBody_ok hpar n nm subs pre rest hfresh r
      { st with es := { st.es with types := pre ++ [(n, .abstract_ nm subs true)] } } true hs rfl hbr ho1
    exact ⟨d', h1⟩

/-- **a rule-abiding `<abstracttype>` element is accepted** and appends an abstract entry under the declared name -/
theorem abstracttypeElem_ok {env : Env} {h : Hooks} {d : DocKind} {parent : Str} {st : PSt} {Γ : Ctx} {a : Attrs}
    {c : List Node} (hrel : TypesRel Γ st.es.types) (hn : nestingOK parent "abstracttype".toList = true)
    (hok : abstracttypeOK (!isComp d) Γ a c = true) :
    ∃ e, visitElem env h d (some parent) st (.elem "abstracttype".toList a c) =
        .ok { st with es := { st.es with types := st.es.types ++ [(typeNameOf a, e)] } } ∧
      EntryRel .abstract e := by
  unfold abstracttypeOK typeNameOK at hok
  simp only [Bool.and_eq_true, Bool.not_eq_true'] at hok
  obtain ⟨⟨⟨r1, r2⟩, rbody⟩, ronce⟩ := hok
  cases hv : attr a "name" with
  | none => rw [hv] at r1; cases r1
  | some v =>
    rw [hv] at r1
    simp only [Option.getD_some] at r1
    have hname : typeNameOf a = asciiLower v := by unfold typeNameOf; rw [hv]; rfl
    have hbk : basicKeyE v = .ok (asciiLower v) := by rw [basicKeyE_eq, if_pos r1]
    have hfresh : asciiLower v ∉ st.es.typeNames := by
      rw [ES.typeNames, ← hrel.names, ← hname]
      intro hc
      have := List.contains_iff_mem.mpr hc
      rw [this] at r2; cases r2
    rw [visitElem_handled hn (by decide +kernel), startHandled_abstracttype,
      startAbstracttype_named st a v _ hv hbk, addType_fresh _ _ _ hfresh]
    simp only [Except.map, bind, Except.bind]
    have ho : OnceIf (isComp d) false "description".toList c := descOnce_onceIf ronce
    obtain ⟨d', hbody⟩ := abstractBody_ok (env := env) (h := h) (dk := d) (parent := "abstracttype".toList)
      (fun t => nestingOK_abstract_cases) (asciiLower v) (asciiLower v) [] st.es.types st.stack
      hfresh c { st with es := { st.es with types := st.es.types ++ [(asciiLower v, .abstract_ (asciiLower v) [] false)] },
                         stack := .atype (asciiLower v) :: st.stack } false rfl rfl rbody ho
    rw [hbody]
    have hend : endHandled env "abstracttype".toList = popFrame := by funext s; rfl
    rw [hend, hname]
    exact ⟨.abstract_ (asciiLower v) [] d', rfl, trivial⟩

/-! ### `<sectiontype>`: the start tag -/

/-- the children of the base, re-derived under the key type of the derived type -/
theorem deriveChildren_of_rules {env : Env} {kt : Str} {ms : List Member} {ch : List (Option Str × EInfo)}
    (h : Pointwise MemberRel ms ch) (hok : inheritedDefaultsOK env kt ms = true) :
    ∃ ch', deriveChildren env kt ch = .ok ch' ∧ Pointwise MemberRel ms ch' := by
  rw [deriveChildren_eq]
  induction h with
  | nil => exact ⟨[], rfl, .nil⟩
  | @cons m c ms' ch0 hmc _ ih =>
    unfold inheritedDefaultsOK at hok ih
    simp only [List.all_cons, Bool.and_eq_true] at hok
    obtain ⟨ch', h1, h2⟩ := ih hok.2
    have hone : ∃ c', deriveChild env kt c = .ok c' ∧ MemberRel m c' := by
      obtain ⟨key, info⟩ := c
      cases info with
      | sect s => exact ⟨(key, .sect s), rfl, hmc⟩
      | key k =>
        by_cases hplus : k.name = ['+']
        · obtain ⟨hk, ha, hp⟩ := hmc
          have hp' : PlusRel m.plus k := hp
          have hp2 := hp'
          unfold PlusRel at hp2
          rw [if_pos hplus] at hp2
          obtain ⟨keys, hm, _, _⟩ := hp2
          have hdk : defaultKeysOK env kt k.multi keys = true := by
            have := hok.1
            rw [hm] at this
            exact this
          obtain ⟨d, hcd⟩ := computeDefault_of_rules hplus (by rw [← hm]; exact hp') hdk
          refine ⟨(key, .key { k with raw := some (k.raw.getD k.dflt), dflt := d }), ?_, hk, ha, ?_⟩
          · simp only [deriveChild, hplus, beq_self_eq_true, ↓reduceIte, hcd, bind, Except.bind, pure, Except.pure]
          · exact hp'.computed d k.finished
        · refine ⟨(key, .key k), ?_, hmc⟩
          have : (k.name == ['+']) = false := by simpa using hplus
          simp only [deriveChild, this, Bool.false_eq_true, ↓reduceIte, pure, Except.pure]
    obtain ⟨c', hc1, hc2⟩ := hone
    refine ⟨c' :: ch', ?_, .cons hc2 h2⟩
    rw [List.mapM_cons, hc1, h1]
    rfl

theorem addSubtype_append_concrete (es : ES) (an name n : Str) (t : EType) :
    (addSubtype { es with types := es.types ++ [(n, .concrete t)] } an name).types =
      (addSubtype es an name).types ++ [(n, .concrete t)] := by
  unfold addSubtype
  simp only [List.map_append, List.map_cons, List.map_nil]
  congr 2
  split <;> rfl

theorem addSubtype_typesRel {Γ : Ctx} {es : ES} (h : TypesRel Γ es.types) (an name : Str) :
    TypesRel Γ (addSubtype es an name).types := by
  unfold addSubtype
  apply h.map_abstract
  intro ⟨k, e⟩
  refine ⟨by simp only; split <;> rfl, ?_, ?_⟩
  · intro t ht
    simp only at ht
    subst ht
    simp only
    split <;> rfl
  · intro a b c ht
    simp only at ht
    subst ht
    simp only
    split
    · exact ⟨_, _, _, rfl⟩
    · exact ⟨_, _, _, rfl⟩

theorem gettype_of_lookup {Γ : Ctx} {es : ES} (hrel : TypesRel Γ es.types) {b : Str} {sig : TySig}
    (hb : DTSpec.isBasicKey b = true) (hl : Γ.lookup (asciiLower b) = some sig) :
    ∃ e, es.gettype (asciiLower b) = some (asciiLower b, e) ∧ EntryRel sig e := by
  unfold ES.gettype
  rw [lower_asciiLower hb]
  exact hrel.lookup hl

/-- **the start tag of a rule-abiding `<sectiontype>`** appends a concrete entry with the predicted key type and the
(re-derived) children of the base, pushes the prefix and opens the type -/
theorem startSectiontype_of_rules {env : Env} {st : PSt} {Γ : Ctx} {outer : Str} {ps : List Str} {a : Attrs}
    (hrel : TypesRel Γ st.es.types) (hp : st.prefixes = outer :: ps)
    (r1 : typeNameOK Γ a = true) (r2 : prefixOK (some outer) a = true) (r3 : extendsOK Γ a = true)
    (r4 : implementsOK Γ a = true)
    (r5 : dtAttrOK env (prefixOf (some outer) a) a "keytype" = true)
    (r6 : dtAttrOK env (prefixOf (some outer) a) a "valuetype" = true)
    (r7 : dtAttrOK env (prefixOf (some outer) a) a "datatype" = true)
    (r8 : inheritedDefaultsOK env (typeKeytype env outer Γ a) (inheritedOf Γ a) = true) :
    ∃ (pre : List (Str × EEntry)) (t : EType),
      startSectiontype env st a =
        .ok { st with es := { st.es with types := pre ++ [(typeNameOf a, .concrete t)] },
                      prefixes := prefixOf (some outer) a :: st.prefixes,
                      stack := .stype (typeNameOf a) :: st.stack } ∧
      TypesRel Γ pre ∧ t.keytype = typeKeytype env outer Γ a ∧ Pointwise MemberRel (inheritedOf Γ a) t.children ∧
      t.hasDesc = false ∧ t.hasEx = false := by
  unfold typeNameOK at r1
  simp only [Bool.and_eq_true, Bool.not_eq_true'] at r1
  obtain ⟨r1a, r1b⟩ := r1
  cases hv : attr a "name" with
  | none => rw [hv] at r1a; cases r1a
  | some v =>
  rw [hv] at r1a
  simp only [Option.getD_some] at r1a
  have hname : typeNameOf a = asciiLower v := by unfold typeNameOf; rw [hv]; rfl
  have hbk : basicKeyE v = .ok (asciiLower v) := by rw [basicKeyE_eq, if_pos r1a]
  have hfresh : asciiLower v ∉ st.es.typeNames := by
    rw [ES.typeNames, ← hrel.names, ← hname]
    intro hc
    have := List.contains_iff_mem.mpr hc
    rw [this] at r1b; cases r1b
  have hpush := pushPrefix_of_rules_inner hp r2
  rw [startSectiontype_steps env st a v _ _ hv hbk hpush]
  generalize hpfx : prefixOf (some outer) a = pfx at *
  have hp1 : ({ st with prefixes := pfx :: st.prefixes } : PSt).prefixes = pfx :: st.prefixes := rfl
  -- the `extends` step
  have hbase : ∃ t : EType, sectiontypeBase env { st with prefixes := pfx :: st.prefixes } a (asciiLower v) =
        .ok { st.es with types := st.es.types ++ [(asciiLower v, .concrete t)] } ∧
      t.keytype = typeKeytype env outer Γ a ∧ Pointwise MemberRel (inheritedOf Γ a) t.children ∧
      t.hasDesc = false ∧ t.hasEx = false := by
    unfold sectiontypeBase
    cases hx : attr a "extends" with
    | none =>
      have hb0 : baseOf Γ a = none := by unfold baseOf; rw [hx]
      obtain ⟨dt, hti⟩ := getSectTypeinfo_of_rules (env := env) none hp1 r5 r6 r7
      simp only [hti, bind, Except.bind]
      rw [addType_fresh _ _ _ hfresh]
      refine ⟨_, rfl, ?_, ?_, rfl, rfl⟩
      · unfold typeKeytype; rw [hb0, hpfx]; rfl
      · unfold inheritedOf; rw [hb0]; exact .nil
    | some b =>
      unfold extendsOK at r3
      rw [hx] at r3
      simp only [Bool.and_eq_true] at r3
      obtain ⟨hbb, hbs⟩ := r3
      have hbo : ∃ bkt bms, baseOf Γ a = some (bkt, bms) ∧ Γ.lookup (asciiLower b) = some (.concrete bkt bms) := by
        unfold baseOf at hbs ⊢
        rw [hx] at hbs ⊢
        simp only at hbs ⊢
        cases hl : Γ.lookup (asciiLower b) with
        | none => rw [hl] at hbs; cases hbs
        | some sig =>
          cases sig with
          | abstract => rw [hl] at hbs; cases hbs
          | concrete bkt bms => exact ⟨bkt, bms, rfl, rfl⟩
      obtain ⟨bkt, bms, hb0, hlook⟩ := hbo
      obtain ⟨e, hget, herel⟩ := gettype_of_lookup (es := st.es) hrel hbb hlook
      cases e with
      | abstract_ x y z => exact herel.elim
      | concrete base =>
        obtain ⟨hbkt, hbch⟩ := herel
        have hbk' : basicKeyE b = .ok (asciiLower b) := by rw [basicKeyE_eq, if_pos hbb]
        obtain ⟨dt, hti⟩ := getSectTypeinfo_of_rules (env := env) (some (base.keytype, base.datatype)) hp1 r5 r6 r7
        have hkt : keytypeOf env pfx a (Option.map (·.1) (some (base.keytype, base.datatype))) =
            typeKeytype env outer Γ a := by
          unfold typeKeytype; rw [hb0, hpfx, ← hbkt]; rfl
        rw [hkt] at hti
        have hinh : inheritedOf Γ a = bms := by unfold inheritedOf; rw [hb0]; rfl
        rw [hinh] at r8 ⊢
        obtain ⟨ch', hder, hch'⟩ := deriveChildren_of_rules hbch r8
        have hget' : ({ st with prefixes := pfx :: st.prefixes } : PSt).es.gettype (asciiLower b) =
            some (asciiLower b, .concrete base) := hget
        simp only [hbk', hget', hti, bind, Except.bind]
        rw [addType_fresh _ _ _ hfresh]
        simp only [hder, pure, Except.pure]
        rw [updType_append_fresh _ _ _ _ hfresh]
        exact ⟨_, rfl, rfl, hch', rfl, rfl⟩
  obtain ⟨t, hb1, hb2, hb3, hb4, hb5⟩ := hbase
  rw [hb1]
  simp only [bind, Except.bind]
  -- the `implements` step
  have himpl : ∃ pre, sectiontypeImplements { st.es with types := st.es.types ++ [(asciiLower v, .concrete t)] } a
        (asciiLower v) = .ok { st.es with types := pre ++ [(asciiLower v, .concrete t)] } ∧ TypesRel Γ pre := by
    cases hi : attr a "implements" with
    | none => exact ⟨st.es.types, sectiontypeImplements_none _ _ _ hi, hrel⟩
    | some i =>
      unfold implementsOK at r4
      rw [hi] at r4
      simp only [Bool.and_eq_true] at r4
      obtain ⟨hib, hil⟩ := r4
      have hlook : Γ.lookup (asciiLower i) = some .abstract := by
        cases hl : Γ.lookup (asciiLower i) with
        | none => rw [hl] at hil; cases hil
        | some sig =>
          cases sig with
          | abstract => rfl
          | concrete x y => rw [hl] at hil; cases hil
      obtain ⟨e, hget, herel⟩ := gettype_of_lookup (es := st.es) hrel hib hlook
      cases e with
      | concrete x => exact herel.elim
      | abstract_ nm subs d =>
        have hbk' : basicKeyE i = .ok (asciiLower i) := by rw [basicKeyE_eq, if_pos hib]
        have hget2 : ({ st.es with types := st.es.types ++ [(asciiLower v, .concrete t)] } : ES).gettype (asciiLower i) =
            some (asciiLower i, .abstract_ nm subs d) := by
          rw [gettype_append_concrete, hget]
        rw [sectiontypeImplements_abstract _ a _ i _ _ nm subs d hi hbk' hget2]
        refine ⟨(addSubtype st.es (asciiLower i) (asciiLower v)).types, ?_, addSubtype_typesRel hrel _ _⟩
        congr 1
        have := addSubtype_append_concrete st.es (asciiLower i) (asciiLower v) (asciiLower v) t
        unfold addSubtype at this ⊢
        simp only at this ⊢
        rw [this]
  obtain ⟨pre, hi1, hi2⟩ := himpl
  rw [hi1]
  refine ⟨pre, t, ?_, hi2, hb2, hb3, hb4, hb5⟩
  rw [hname]
  rfl

/-! ### `<sectiontype>`: the body -/

section OpenType
variable {es0 : ES} {n : Str} {t : EType} {st : PSt} {rest : List Frame}

theorem find_open (hes : st.es = { es0 with types := es0.types ++ [(n, .concrete t)] }) (hfresh : n ∉ es0.typeNames) :
    st.es.types.find? (·.1 == n) = some (n, .concrete t) := by
  rw [hes]; exact find_fst_append_fresh _ _ _ hfresh

theorem topOf_open (hes : st.es = { es0 with types := es0.types ++ [(n, .concrete t)] }) (hfresh : n ∉ es0.typeNames) :
    topOf st.es (.stype n :: rest) = .ok t.children := by
  unfold topOf
  simp only [find_open hes hfresh]

theorem ktOf_open (hes : st.es = { es0 with types := es0.types ++ [(n, .concrete t)] }) (hfresh : n ∉ es0.typeNames) :
    ktOf st.es (.stype n :: rest) = .ok t.keytype := by
  unfold ktOf
  simp only [find_open hes hfresh]

theorem setTopOf_open (hes : st.es = { es0 with types := es0.types ++ [(n, .concrete t)] }) (hfresh : n ∉ es0.typeNames)
    (ch : List (Option Str × EInfo)) :
    setTopOf st.es (.stype n :: rest) ch =
      { es0 with types := es0.types ++ [(n, .concrete { t with children := ch })] } := by
  unfold setTopOf
  simp only
  rw [hes]
  exact updType_append_fresh es0 n t _ hfresh

theorem typeNames_open (hes : st.es = { es0 with types := es0.types ++ [(n, .concrete t)] }) :
    st.es.typeNames = es0.typeNames ++ [n] := by
  rw [hes]; simp [ES.typeNames]

theorem markDesc_open {isC : Bool} (hs : st.stack = .stype n :: rest)
    (hes : st.es = { es0 with types := es0.types ++ [(n, .concrete t)] }) (hfresh : n ∉ es0.typeNames)
    (hd : (t.hasDesc && !isC) = false) :
    markDesc isC st =
      .ok { st with es := { es0 with types := es0.types ++ [(n, .concrete { t with hasDesc := true })] } } := by
  unfold markDesc
  rw [hs]
  simp only [find_open hes hfresh, hd, Bool.false_eq_true, ↓reduceIte]
  congr 2
  rw [hes]
  exact updType_append_fresh es0 n t _ hfresh

theorem markExample_open (hs : st.stack = .stype n :: rest)
    (hes : st.es = { es0 with types := es0.types ++ [(n, .concrete t)] }) (hfresh : n ∉ es0.typeNames)
    (hd : t.hasEx = false) :
    markExample st =
      .ok { st with es := { es0 with types := es0.types ++ [(n, .concrete { t with hasEx := true })] } } := by
  unfold markExample
  rw [hs]
  simp only [find_open hes hfresh, hd, Bool.false_eq_true, ↓reduceIte]
  congr 2
  rw [hes]
  exact updType_append_fresh es0 n t _ hfresh

end OpenType

theorem isKeyTag_cases {t : Str} (h : isKeyTag t = true) : t = "key".toList ∨ t = "multikey".toList := by
  simpa only [isKeyTag, Bool.or_eq_true, beq_iff_eq] using h
theorem isSectTag_cases {t : Str} (h : isSectTag t = true) : t = "section".toList ∨ t = "multisection".toList := by
  simpa only [isSectTag, Bool.or_eq_true, beq_iff_eq] using h
theorem isNoteTag_cases {t : Str} (h : isNoteTag t = true) : t = "description".toList ∨ t = "example".toList := by
  simpa only [isNoteTag, Bool.or_eq_true, beq_iff_eq] using h

/-- the member elements, uniformly: a rule-abiding `<key>`, `<multikey>`, `<section>` or `<multisection>` is accepted
and adds the predicted children to the container on top of the stack -/
theorem memberElem_ok {env : Env} {h : Hooks} {d : DocKind} {parent pfx kt : Str} {ps : List Str} {names : List Str} {st : PSt}
    {ch : List (Option Str × EInfo)} {ms : List Member} {t : Str} {a : Attrs} {c : List Node}
    (hch : topOf st.es st.stack = .ok ch) (hkt : ktOf st.es st.stack = .ok kt) (hp : st.prefixes = pfx :: ps)
    (hnames : st.es.typeNames = names) (hms : Pointwise MemberRel ms ch)
    (hnote : isNoteTag t = false) (hok : memberElemOK env (!isComp d) parent pfx kt names ms t a c = true) :
    ∃ xs, visitElem env h d (some parent) st (.elem t a c) =
        .ok { st with es := setTopOf st.es st.stack (ch ++ xs) } ∧
      Pointwise MemberRel (memberElemAdds env kt t a c) xs := by
  unfold memberElemOK at hok
  simp only [Bool.and_eq_true] at hok
  obtain ⟨hn, hok⟩ := hok
  unfold memberElemAdds
  by_cases hk : isKeyTag t = true
  · rw [if_pos hk] at hok ⊢
    rcases isKeyTag_cases hk with rfl | rfl
    · have : ("key".toList == "multikey".toList) = false := by decide +kernel
      rw [this] at hok ⊢
      obtain ⟨x, h1, h2⟩ := keyElem_ok (h := h) hch hkt hp hms hn hok
      exact ⟨[x], h1, .cons h2 .nil⟩
    · have : ("multikey".toList == "multikey".toList) = true := by decide +kernel
      rw [this] at hok ⊢
      obtain ⟨x, h1, h2⟩ := multikeyElem_ok (h := h) hch hkt hp hms hn hok
      exact ⟨[x], h1, .cons h2 .nil⟩
  · rw [if_neg hk] at hok ⊢
    by_cases hs : isSectTag t = true
    · rw [if_pos hs] at hok ⊢
      rcases isSectTag_cases hs with rfl | rfl
      · have : ("section".toList == "multisection".toList) = false := by decide +kernel
        rw [this] at hok
        obtain ⟨x, h1, h2⟩ := sectionElem_ok (h := h) hch hkt hnames hms hn hok
        exact ⟨[x], h1, .cons h2 .nil⟩
      · have : ("multisection".toList == "multisection".toList) = true := by decide +kernel
        rw [this] at hok
        obtain ⟨x, h1, h2⟩ := multisectionElem_ok (h := h) hch hkt hnames hms hn hok
        exact ⟨[x], h1, .cons h2 .nil⟩
    · rw [if_neg hs] at hok
      rw [hnote] at hok
      simp at hok

theorem memberElemAdds_note {env : Env} {kt t : Str} {a : Attrs} {c : List Node} (h : isNoteTag t = true) :
    memberElemAdds env kt t a c = [] := by
  unfold memberElemAdds
  rcases isNoteTag_cases h with rfl | rfl
  · have h1 : isKeyTag "description".toList = false := by decide +kernel
    have h2 : isSectTag "description".toList = false := by decide +kernel
    simp only [h1, h2, Bool.false_eq_true, ↓reduceIte]
  · have h1 : isKeyTag "example".toList = false := by decide +kernel
    have h2 : isSectTag "example".toList = false := by decide +kernel
    simp only [h1, h2, Bool.false_eq_true, ↓reduceIte]

theorem memberElemOK_note {env : Env} {strict : Bool} {parent pfx kt t : Str} {names : List Str} {ms : List Member}
    {a : Attrs} {c : List Node} (h : isNoteTag t = true)
    (hok : memberElemOK env strict parent pfx kt names ms t a c = true) :
    nestingOK parent t = true ∧ c.all isText = true := by
  unfold memberElemOK at hok
  simp only [Bool.and_eq_true] at hok
  refine ⟨hok.1, ?_⟩
  have hok2 := hok.2
  rcases isNoteTag_cases h with rfl | rfl
  · have h1 : isKeyTag "description".toList = false := by decide +kernel
    have h2 : isSectTag "description".toList = false := by decide +kernel
    have h3 : isNoteTag "description".toList = true := by decide +kernel
    simpa only [h1, h2, h3, Bool.false_eq_true, ↓reduceIte] using hok2
  · have h1 : isKeyTag "example".toList = false := by decide +kernel
    have h2 : isSectTag "example".toList = false := by decide +kernel
    have h3 : isNoteTag "example".toList = true := by decide +kernel
    simpa only [h1, h2, h3, Bool.false_eq_true, ↓reduceIte] using hok2

theorem cdata_description : Gen.cdataTags.contains "description".toList = true := by decide +kernel
theorem cdata_example : Gen.cdataTags.contains "example".toList = true := by decide +kernel

/-- **the body of a `<sectiontype>`**: every child is accepted; the open type (the last entry of the table) collects the
children the specification predicts, nothing else changes -/
theorem typeBody_ok {env : Env} {h : Hooks} {d : DocKind} {parent pfx kt n : Str} {ps : List Str} {rest : List Frame}
    {names : List Str} (es0 : ES) (hfresh : n ∉ es0.typeNames) (hnames : es0.typeNames ++ [n] = names) :
    ∀ (c : List Node) (ms : List Member) (t : EType) (st : PSt),
      st.stack = .stype n :: rest → st.prefixes = pfx :: ps →
      st.es = { es0 with types := es0.types ++ [(n, .concrete t)] } → t.keytype = kt →
      Pointwise MemberRel ms t.children →
      OnceIf (isComp d) t.hasDesc "description".toList c → onceLeft t.hasEx "example".toList c →
      membersOK env (!isComp d) parent pfx kt names ms c = true →
      ∃ t', visitChildren env h d parent st c =
          .ok { st with es := { es0 with types := es0.types ++ [(n, .concrete t')] } } ∧
        t'.keytype = kt ∧ Pointwise MemberRel (ms ++ membersOf env kt c) t'.children
  | [], ms, t, st, _, _, hes, hkt, hms, _, _, _ => by
    refine ⟨t, ?_, hkt, by rw [membersOf, List.append_nil]; exact hms⟩
    rw [visitChildren_nil', ← hes]
  | .text s :: r, ms, t, st, hs, hp, hes, hkt, hms, hd, he, hok => by
    rw [membersOK] at hok
    simp only [Bool.and_eq_true] at hok
    have hbl : (strip s).isEmpty = true := hok.1
    obtain ⟨t', h1, h2, h3⟩ := typeBody_ok es0 hfresh hnames r ms t st hs hp hes hkt hms hd.text
      (onceLeft_text he) hok.2
    exact ⟨t', by rw [visitChildren_text, if_pos hbl]; exact h1, h2, by rw [membersOf]; exact h3⟩
  | .elem tg a c0 :: r, ms, t, st, hs, hp, hes, hkt, hms, hd, he, hok => by
    rw [membersOK] at hok
    simp only [Bool.and_eq_true] at hok
    obtain ⟨hok1, hokr⟩ := hok
    rw [visitChildren_elem, membersOf]
    by_cases hnote : isNoteTag tg = true
    · obtain ⟨hn, htxt⟩ := memberElemOK_note hnote hok1
      rw [memberElemAdds_note hnote] at hokr ⊢
      rw [List.append_nil] at hokr
      rw [List.nil_append]
      rcases isNoteTag_cases hnote with rfl | rfl
      · obtain ⟨hf, hd1⟩ := hd.same
        rw [visitElem_note hn cdata_description htxt, charactersTag_description, markDesc_open hs hes hfresh hf]
        simp only [bind, Except.bind]
        obtain ⟨t', h1, h2, h3⟩ := typeBody_ok es0 hfresh hnames r ms { t with hasDesc := true }
          { st with es := { es0 with types := es0.types ++ [(n, .concrete { t with hasDesc := true })] } }
          hs hp rfl hkt hms hd1 (onceLeft_other (by decide +kernel) he) hokr
        exact ⟨t', h1, h2, h3⟩
      · obtain ⟨hf, he1⟩ := onceLeft_same he
        rw [visitElem_note hn cdata_example htxt, charactersTag_example, markExample_open hs hes hfresh hf]
        simp only [bind, Except.bind]
        obtain ⟨t', h1, h2, h3⟩ := typeBody_ok es0 hfresh hnames r ms { t with hasEx := true }
          { st with es := { es0 with types := es0.types ++ [(n, .concrete { t with hasEx := true })] } }
          hs hp rfl hkt hms (hd.other (by decide +kernel)) he1 hokr
        exact ⟨t', h1, h2, h3⟩
    · have hnote' : isNoteTag tg = false := by simpa using hnote
      have htop : topOf st.es st.stack = .ok t.children := by rw [hs]; exact topOf_open hes hfresh
      have hktop : ktOf st.es st.stack = .ok kt := by rw [hs, ← hkt]; exact ktOf_open hes hfresh
      have hnm : st.es.typeNames = names := by rw [typeNames_open hes]; exact hnames
      obtain ⟨xs, h1, h2⟩ := memberElem_ok (h := h) htop hktop hp hnm hms hnote' hok1
      rw [h1]
      simp only [bind, Except.bind]
      have hset : setTopOf st.es st.stack (t.children ++ xs) =
          { es0 with types := es0.types ++ [(n, .concrete { t with children := t.children ++ xs })] } := by
        rw [hs]; exact setTopOf_open hes hfresh _
      have hne : ∀ tag, tg ≠ tag → isNoteTag tag = true → True := fun _ _ _ => trivial
      have hd' : OnceIf (isComp d) t.hasDesc "description".toList r := by
        apply OnceIf.other _ hd
        intro e; rw [e] at hnote'; exact absurd hnote' (by decide +kernel)
      have he' : onceLeft t.hasEx "example".toList r := by
        apply onceLeft_other _ he
        intro e; rw [e] at hnote'; exact absurd hnote' (by decide +kernel)
      obtain ⟨t', g1, g2, g3⟩ := typeBody_ok es0 hfresh hnames r (ms ++ memberElemAdds env kt tg a c0)
        { t with children := t.children ++ xs } { st with es := setTopOf st.es st.stack (t.children ++ xs) }
        hs hp hset hkt (Pointwise.append hms h2) hd' he' hokr
      refine ⟨t', ?_, g2, by rw [← List.append_assoc]; exact g3⟩
      rw [g1, hset]

end ZCV.SchemaRules
