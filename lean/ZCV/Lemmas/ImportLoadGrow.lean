import ZCV.Lemmas.SlotsImport
import ZCV.Lemmas.LoadTree
import ZCV.Lemmas.TextLoad
import ZCV.Spec.ConformsImport
import ZCV.Lemmas.NoInternalLower
/-!
How a schema grows under `%import`, and what does NOT change when it grows.

* `extend` (spec) is what `lsImport` (model) does to the schema of the load;
* `Grow s s'`: `s'` keeps the top level, the concrete and the abstract types of `s`, and among the type names of `s` the
  implementer tables are unchanged (a component can only register its OWN, new, types);
* under `Grow s s'`, for items all of whose headers name types known to `s`: slots, values (`itemVal`,
  `containerVal`) and the loader's per-item evaluation (`evalItem`, up to acceptance) are the same for `s` and `s'`.
-/
namespace ZCV.Conf
open ZCV ZCV.Cfg

/-! ### `extend` is what `lsImport` does -/

theorem addStep_toOption (impls : List (Str × Str)) (sc : Schema) (te : Str × TypeEntry) :
    (addStep impls sc te).toOption = addType impls sc te := by
  unfold addStep addType
  split <;> rfl

theorem fold_toOption (impls : List (Str × Str)) : ∀ (types : List (Str × TypeEntry)) (sc : Schema),
    (types.foldlM (addStep impls) sc).toOption = addTypes impls sc types
  | [], sc => rfl
  | te :: r, sc => by
    rw [List.foldlM_cons, toOption_bind, addStep_toOption, addTypes]
    apply option_bind_congr
    intro s' _
    exact fold_toOption impls r s'

theorem extend_component (s : Schema) (url : Str) (types : List (Str × TypeEntry)) (impls : List (Str × Str)) :
    extend s (.component url types impls) =
      if s.components.contains url then some s
      else addTypes impls { s with components := s.components ++ [url] } types := rfl

/-- **`extend` = `lsImport`**: a `%import` succeeds iff `extend` is defined, and then the load continues with exactly
    the schema `extend` gives (and nothing else of the load's state changes but the "private copy" flag) -/
theorem lsImport_toOption (st : LS) (pkg : Str) :
    (lsImport st pkg).toOption =
      (extend st.schema (st.pkgs pkg)).map fun sch => { st with schema := sch, privateSchema := true } := by
  cases hp : st.pkgs pkg with
  | component url types impls =>
    rw [lsImport_component st pkg url types impls hp, extend_component]
    split
    · rfl
    · rw [toOption_map, fold_toOption]
  | notImportable => unfold lsImport; rw [hp]; rfl
  | notPackage => unfold lsImport; rw [hp]; rfl
  | noComponent => unfold lsImport; rw [hp]; rfl
  | illegalName => unfold lsImport; rw [hp]; rfl

/-! ### `Grow` -/

def keysOf (s : Schema) : List Str := s.types.map (·.1)

structure Grow (s s' : Schema) : Prop where
  top : s'.top = s.top
  abs : ∀ x, isAbstract s x = true → isAbstract s' x = true
  conc : ∀ x t, s.gettype x = some (.concrete t) → s'.gettype x = some (.concrete t)
  impl : ∀ x y, isAbstract s x = true → y ∈ keysOf s → (y ∈ implementers s' x ↔ y ∈ implementers s x)
  keys : ∀ k ∈ keysOf s, k ∈ keysOf s'

theorem Grow.refl (s : Schema) : Grow s s :=
  ⟨rfl, fun _ h => h, fun _ _ h => h, fun _ _ _ _ => Iff.rfl, fun _ h => h⟩

theorem Grow.trans {a b c : Schema} (h1 : Grow a b) (h2 : Grow b c) : Grow a c :=
  ⟨h2.top.trans h1.top, fun x h => h2.abs x (h1.abs x h), fun x t h => h2.conc x t (h1.conc x t h),
   fun x y ha hy => (h2.impl x y (h1.abs x ha) (h1.keys y hy)).trans (h1.impl x y ha hy),
   fun k hk => h2.keys k (h1.keys k hk)⟩

theorem fold_keys (impls : List (Str × Str)) : ∀ (types : List (Str × TypeEntry)) (sc sc' : Schema),
    types.foldlM (addStep impls) sc = .ok sc' → keysOf sc' = keysOf sc ++ types.map (·.1) := by
  intro types
  induction types with
  | nil =>
    intro sc sc' h
    simp only [List.foldlM_nil, pure, Except.pure, Except.ok.injEq] at h
    subst h
    simp
  | cons te rest ih =>
    intro sc sc' h
    rw [List.foldlM_cons] at h
    obtain ⟨sc1, h1, h2⟩ := bind_ok_inv h
    rw [ih sc1 sc' h2]
    unfold keysOf
    rw [addStep_keys impls sc sc1 te h1]
    simp

theorem Grow_of_extend (s s' : Schema) (pkg : Pkg) (h : extend s pkg = some s') : Grow s s' := by
  cases pkg with
  | component url types impls =>
    rw [extend_component] at h
    split at h
    · cases h; exact Grow.refl s
    · rw [← fold_toOption, toOption_eq_some] at h
      have hext := Ext_fold impls types _ _ h
      have hkeys := fold_keys impls types _ _ h
      refine ⟨hext.top, fun x hx => hext.abs x hx, fun x t hx => hext.conc x t hx, ?_, ?_⟩
      · intro x y hx hy
        constructor
        · intro hm
          rcases hext.only x y hx hm with h1 | ⟨h1, _⟩
          · exact h1
          · exfalso
            obtain ⟨te, hte, rfl⟩ := List.mem_map.mp h1
            have := fold_clash_fails impls types { s with components := s.components ++ [url] } ⟨te, hte, hy⟩
            rw [h] at this
            cases this
        · intro hm
          exact hext.mono x y hx hm
      · intro k hk
        rw [hkeys]
        exact List.mem_append_left _ hk
  | notImportable => cases h
  | notPackage => cases h
  | noComponent => cases h
  | illegalName => cases h

theorem Grow_of_extendBy (pkgs : Str → Pkg) : ∀ (tops : List TopItem) (s s' : Schema),
    extendBy pkgs s tops = some s' → Grow s s'
  | [], s, s', h => by
    rw [extendBy] at h
    cases h
    exact Grow.refl s
  | .item _ :: r, s, s', h => by
    rw [extendBy] at h
    exact Grow_of_extendBy pkgs r s s' h
  | .imp p :: r, s, s', h => by
    rw [extendBy] at h
    cases he : extend s (pkgs p) with
    | none => rw [he] at h; cases h
    | some s1 =>
      rw [he] at h
      exact (Grow_of_extend s s1 _ he).trans (Grow_of_extendBy pkgs r s1 s' h)

/-! ### what does not change: types, slots -/

theorem mem_keysOf_of_gettype (s : Schema) (ty : Str) (h : (s.gettype ty).isSome = true) : lower ty ∈ keysOf s := by
  cases hg : s.gettype ty with
  | none => rw [hg] at h; cases h
  | some te =>
    obtain ⟨n, hm, hn⟩ := gettype_mem s ty te hg
    subst hn
    exact List.mem_map.mpr ⟨_, hm, rfl⟩

theorem isAbstract_grow {s s' : Schema} (hg : Grow s s') (x : Str) (hk : (s.gettype x).isSome = true) :
    isAbstract s' x = isAbstract s x := by
  cases hx : s.gettype x with
  | none => rw [hx] at hk; cases hk
  | some te =>
    cases te with
    | concrete t =>
      rw [isAbstract_concrete s x t hx, isAbstract_concrete s' x t (hg.conc x t hx)]
    | abstract_ n subs =>
      have : isAbstract s x = true := by unfold isAbstract; rw [hx]
      rw [this, hg.abs x this]

theorem gettype_grow {s s' : Schema} (hg : Grow s s') (x : Str) (hk : (s.gettype x).isSome = true) :
    (∃ t, s.gettype x = some (.concrete t) ∧ s'.gettype x = some (.concrete t)) ∨
    (isAbstract s x = true ∧ isAbstract s' x = true) := by
  cases hx : s.gettype x with
  | none => rw [hx] at hk; cases hk
  | some te =>
    cases te with
    | concrete t => exact .inl ⟨t, rfl, hg.conc x t hx⟩
    | abstract_ n subs =>
      have : isAbstract s x = true := by unfold isAbstract; rw [hx]
      exact .inr ⟨this, hg.abs x this⟩

theorem contains_grow {s s' : Schema} (hg : Grow s s') (x y : Str) (hx : isAbstract s x = true) (hy : y ∈ keysOf s) :
    (implementers s' x).contains y = (implementers s x).contains y := by
  rw [Bool.eq_iff_iff, List.contains_iff_mem, List.contains_iff_mem]
  exact hg.impl x y hx hy

/-- the section slots of a type name types the schema knows -/
def slotsKnown (s : Schema) (t : SType) : Prop :=
  ∀ c ∈ t.children, ∀ si, c.2 = .sect si → (s.gettype si.ty).isSome = true

theorem stypeOK_slotsKnown (s : Schema) (t : SType) (h : stypeOK s t = true) : slotsKnown s t := by
  intro c hc si hsi
  unfold stypeOK at h
  simp only [Bool.and_eq_true, List.all_eq_true] at h
  have := h.2 c hc
  rw [hsi] at this
  simp only [Bool.and_eq_true] at this
  exact this.2

theorem claims_grow {s s' : Schema} (hg : Grow s s') (y : Str) (nm : Option Str) (hy : y ∈ keysOf s)
    (c : Option Str × Info) (hc : ∀ si, c.2 = .sect si → (s.gettype si.ty).isSome = true) :
    claims s' y nm c = claims s y nm c := by
  obtain ⟨k, info⟩ := c
  cases k with
  | some k => rfl
  | none =>
    cases info with
    | key ki => rfl
    | sect si =>
      have hk := hc si rfl
      simp only [claims, ← isAbstract_eq, isAbstract_grow hg si.ty hk]
      cases ha : isAbstract s si.ty with
      | false => rfl
      | true => rw [contains_grow hg si.ty y ha hy]

theorem admits_grow {s s' : Schema} (hg : Grow s s') (y : Str) (nm : Option Str) (hy : y ∈ keysOf s)
    (c : Option Str × Info) (hc : ∀ si, c.2 = .sect si → (s.gettype si.ty).isSome = true) :
    admits s' y nm c = admits s y nm c := by
  obtain ⟨k, info⟩ := c
  cases info with
  | key ki => rfl
  | sect si =>
    have hk := hc si rfl
    cases k with
    | none => rfl
    | some k =>
      have e : isAbs s' si.ty = isAbs s si.ty := isAbstract_grow hg si.ty hk
      simp only [admits]
      rw [e]
      by_cases ha : isAbs s si.ty = true
      · rw [contains_grow hg si.ty y ha hy]
      · rw [if_neg ha, if_neg ha]

theorem find?_congr_mem {α} {p q : α → Bool} : ∀ {l : List α}, (∀ x ∈ l, p x = q x) → l.find? p = l.find? q
  | [], _ => rfl
  | a :: l, h => by
    rw [List.find?_cons, List.find?_cons, h a List.mem_cons_self,
      find?_congr_mem (fun x hx => h x (List.mem_cons_of_mem _ hx))]

theorem all_congr_mem {α} {p q : α → Bool} : ∀ {l : List α}, (∀ x ∈ l, p x = q x) → l.all p = l.all q
  | [], _ => rfl
  | a :: l, h => by
    rw [List.all_cons, List.all_cons, h a List.mem_cons_self,
      all_congr_mem (fun x hx => h x (List.mem_cons_of_mem _ hx))]

/-- **the slot of a header is the same** in the grown schema, for a header type that the smaller schema has -/
theorem slotOf_grow {s s' : Schema} (hg : Grow s s') (t : SType) (hk : slotsKnown s t) (y : Str) (nm : Option Str)
    (hy : y ∈ keysOf s) : slotOf s' t y nm = slotOf s t y nm := by
  unfold slotOf
  rw [find?_congr_mem (fun c hc => claims_grow hg y nm hy c (hk c hc))]
  cases hf : t.children.find? (claims s y nm) with
  | none => rfl
  | some c => exact admits_grow hg y nm hy c (hk c (List.mem_of_find?_eq_some hf))

theorem getsectioninfo_grow {s s' : Schema} (hg : Grow s s') (t : SType) (hT : STypeOK s t) (hk : slotsKnown s t)
    (y : Str) (nm : Option Str) (hy : y ∈ keysOf s) :
    (getsectioninfo s' t y nm).toOption = (getsectioninfo s t y nm).toOption := by
  rw [getsectioninfo_eq_slotOf s t y nm hT, getsectioninfo_eq_slotOf s' t y nm ⟨hT.attrs, hT.keys, hT.shape⟩,
    slotOf_grow hg t hk y nm hy]

/-! ### what does not change: values -/

theorem childVal_congr (conv : Conv) (s s' : Schema) (t : SType) (kl : List (Option Str × VI)) (subs : List Sub)
    (h : ∀ sb ∈ subs, slotOf s' t sb.ty sb.nm = slotOf s t sb.ty sb.nm) (c : Option Str × Info) :
    childVal conv s' t kl subs c = childVal conv s t kl subs c := by
  obtain ⟨k, info⟩ := c
  cases info with
  | key ki => rfl
  | sect si =>
    simp only [childVal]
    rw [List.filter_congr (fun sb hsb => by rw [h sb hsb])]

theorem containerVal_congr (conv : Conv) (s s' : Schema) (t : SType) (nm : Option Str) (items : List Item)
    (sv : List (Option Val))
    (h : ∀ sb ∈ subsOf items sv, slotOf s' t sb.ty sb.nm = slotOf s t sb.ty sb.nm ∧ isAbs s' sb.ty = isAbs s sb.ty) :
    containerVal conv s' t nm items sv = containerVal conv s t nm items sv := by
  rw [containerVal_eq, containerVal_eq]
  have h3 : chk3 s' t (subsOf items sv) = chk3 s t (subsOf items sv) := by
    unfold chk3
    exact all_congr_mem (fun sb hsb => by rw [(h sb hsb).1, (h sb hsb).2])
  have h4 : attrsVal conv s' t (keyLines conv t items) (subsOf items sv) =
      attrsVal conv s t (keyLines conv t items) (subsOf items sv) := by
    unfold attrsVal
    congr 1
    funext c
    rw [childVal_congr conv s s' t _ _ (fun sb hsb => (h sb hsb).1) c]
  rw [h3, h4]

/-- the headers of the direct sub-sections -/
theorem subsOf_mem (items : List Item) : ∀ (sv : List (Option Val)) (sb : Sub), sb ∈ subsOf items sv →
    ∃ nm sub, Item.sect sb.ty nm sub ∈ items := by
  induction items with
  | nil => intro sv sb h; simp [subsOf] at h
  | cons i r ih =>
    intro sv sb h
    cases sv with
    | nil => cases i <;> simp [subsOf] at h
    | cons v vs =>
      cases i with
      | kv k x p =>
        simp only [subsOf] at h
        obtain ⟨nm, sub, hm⟩ := ih vs sb h
        exact ⟨nm, sub, List.mem_cons_of_mem _ hm⟩
      | sect ty nm sub =>
        simp only [subsOf, List.mem_cons] at h
        rcases h with rfl | h
        · exact ⟨nm, sub, List.mem_cons_self⟩
        · obtain ⟨nm', sub', hm⟩ := ih vs sb h
          exact ⟨nm', sub', List.mem_cons_of_mem _ hm⟩

theorem knownItems_mem (s : Schema) : ∀ (items : List Item) (i : Item), knownItems s items = true → i ∈ items →
    knownItem s i = true
  | [], _, _, h => by cases h
  | j :: r, i, hk, h => by
    rw [knownItems, Bool.and_eq_true] at hk
    rcases List.mem_cons.mp h with rfl | h
    · exact hk.1
    · exact knownItems_mem s r i hk.2 h

theorem lowItems_mem : ∀ (items : List Item) (i : Item), lowItems items = true → i ∈ items → lowItem i = true
  | [], _, _, h => by cases h
  | j :: r, i, hk, h => by
    rw [lowItems, Bool.and_eq_true] at hk
    rcases List.mem_cons.mp h with rfl | h
    · exact hk.1
    · exact lowItems_mem r i hk.2 h

/-- a lower-case header naming a known type names a key of the type table -/
theorem hdr_key (s : Schema) (ty : Str) (nm : Option Str) (sub : List Item)
    (hl : lowItem (.sect ty nm sub) = true) (hk : knownItem s (.sect ty nm sub) = true) :
    ty ∈ keysOf s ∧ (s.gettype ty).isSome = true ∧ lower ty = ty := by
  rw [lowItem, Bool.and_eq_true] at hl
  rw [knownItem, Bool.and_eq_true] at hk
  have hlow : lower ty = ty := by simpa using hl.1
  have := mem_keysOf_of_gettype s ty hk.1
  rw [hlow] at this
  exact ⟨this, hk.1, hlow⟩

/-- the container value is the same in the grown schema when the headers of the direct sub-sections name types of the
    smaller schema -/
theorem containerVal_grow (conv : Conv) {s s' : Schema} (hg : Grow s s') (t : SType) (hk : slotsKnown s t)
    (nm : Option Str) (items : List Item) (sv : List (Option Val))
    (hl : lowItems items = true) (hkn : knownItems s items = true) :
    containerVal conv s' t nm items sv = containerVal conv s t nm items sv := by
  apply containerVal_congr
  intro sb hsb
  obtain ⟨nm', sub, hm⟩ := subsOf_mem items sv sb hsb
  obtain ⟨h1, h2, _⟩ := hdr_key s sb.ty nm' sub (lowItems_mem items _ hl hm) (knownItems_mem s items _ hkn hm)
  exact ⟨slotOf_grow hg t hk sb.ty sb.nm h1, isAbstract_grow hg sb.ty h2⟩

theorem tyCanon_of_low (s : Schema) (hs : schemaOK s = true) : ∀ (items : List Item), lowItems items = true →
    tyCanon s items = true
  | [], _ => tyCanon_nil s
  | .kv _ _ _ :: r, h => by
    rw [lowItems, Bool.and_eq_true] at h
    rw [tyCanon]
    exact tyCanon_of_low s hs r h.2
  | .sect ty nm sub :: r, h => by
    rw [lowItems, lowItem, Bool.and_eq_true, Bool.and_eq_true] at h
    have hlow : lower ty = ty := by simpa using h.1.1
    rw [tyCanon_sect, tyCanon_of_low s hs sub h.1.2, tyCanon_of_low s hs r h.2]
    have := hdrOK_lower s hs ZCV.lower_idem ty
    rw [hlow] at this
    rw [this]
    rfl

mutual
/-- **the value of a section is the same in the grown schema** when all its headers name types of the smaller one -/
theorem itemVal_grow (conv : Conv) {s s' : Schema} (hs : schemaOK s = true) (hg : Grow s s') :
    ∀ (i : Item), lowItem i = true → knownItem s i = true → itemVal conv s' i = itemVal conv s i
  | .kv _ _ _, _, _ => by rw [itemVal, itemVal]
  | .sect ty nm sub, hl, hk => by
    have hl' := hl
    have hk' := hk
    rw [lowItem, Bool.and_eq_true] at hl'
    rw [knownItem, Bool.and_eq_true] at hk'
    rw [itemVal, itemVal]
    rcases gettype_grow hg ty hk'.1 with ⟨t, h1, h2⟩ | ⟨h1, h2⟩
    · rw [h1, h2]
      simp only
      rw [itemVals_grow conv hs hg sub hl'.2 hk'.2,
        containerVal_grow conv hg t (stypeOK_slotsKnown s t (schemaOK_type s hs ty t h1).1) nm sub _ hl'.2 hk'.2]
    · unfold isAbstract at h1 h2
      split at h1
      · rename_i e1
        split at h2
        · rename_i e2
          rw [e1, e2]
        · cases h2
      · cases h1
theorem itemVals_grow (conv : Conv) {s s' : Schema} (hs : schemaOK s = true) (hg : Grow s s') :
    ∀ (l : List Item), lowItems l = true → knownItems s l = true → itemVals conv s' l = itemVals conv s l
  | [], _, _ => by rw [itemVals, itemVals]
  | i :: r, hl, hk => by
    rw [lowItems, Bool.and_eq_true] at hl
    rw [knownItems, Bool.and_eq_true] at hk
    rw [itemVals, itemVals, itemVal_grow conv hs hg i hl.1 hk.1, itemVals_grow conv hs hg r hl.2 hk.2]
end

/-! ### a header naming an unknown type: refused by the spec … -/

theorem containerVal_none_of_sub (conv : Conv) (s : Schema) (t : SType) (nm : Option Str) (items : List Item)
    (sv : List (Option Val)) (h : ∃ sb ∈ subsOf items sv, sb.val = none) :
    containerVal conv s t nm items sv = none := by
  rw [containerVal_eq]
  split
  · rfl
  · split
    · rfl
    · split
      · rfl
      · rename_i h3
        exfalso
        obtain ⟨sb, hsb, hv⟩ := h
        simp only [Bool.not_eq_true, Bool.not_eq_false'] at h3
        unfold chk3 at h3
        rw [List.all_eq_true] at h3
        have := h3 sb hsb
        split at this
        · rw [hv] at this
          simp at this
        · cases this

mutual
theorem itemVal_unknown (conv : Conv) (s : Schema) :
    ∀ (i : Item), knownItem s i = false → itemVal conv s i = none
  | .kv _ _ _, _ => by rw [itemVal]
  | .sect ty nm sub, hk => by
    rw [itemVal]
    rw [knownItem, Bool.and_eq_false_iff] at hk
    cases hg : s.gettype ty with
    | none => rfl
    | some te =>
      cases te with
      | abstract_ n subs => rfl
      | concrete t =>
        simp only
        rcases hk with hk | hk
        · rw [hg] at hk; cases hk
        · rw [containerVal_none_of_sub conv s t nm sub _ (itemVals_unknown conv s sub hk)]
theorem itemVals_unknown (conv : Conv) (s : Schema) :
    ∀ (l : List Item), knownItems s l = false → ∃ sb ∈ subsOf l (itemVals conv s l), sb.val = none
  | [], h => by rw [knownItems] at h; cases h
  | .kv k v p :: r, h => by
    rw [knownItems, knownItem, Bool.true_and] at h
    obtain ⟨sb, hsb, hv⟩ := itemVals_unknown conv s r h
    refine ⟨sb, ?_, hv⟩
    rw [itemVals, subsOf]
    exact hsb
  | .sect ty nm sub :: r, h => by
    rw [knownItems, Bool.and_eq_false_iff] at h
    rw [itemVals, subsOf]
    rcases h with h | h
    · exact ⟨_, List.mem_cons_self, itemVal_unknown conv s _ h⟩
    · obtain ⟨sb, hsb, hv⟩ := itemVals_unknown conv s r h
      exact ⟨sb, List.mem_cons_of_mem _ hsb, hv⟩
end

/-! ### … and by the loader -/

mutual
theorem evalItem_unknown (conv : Conv) (s : Schema) :
    ∀ (i : Item) (m : Matcher), knownItem s i = false → (evalItem conv s m i).toOption = none
  | .kv _ _ _, _, h => by rw [knownItem] at h; cases h
  | .sect ty nm sub, m, hk => by
    rw [evalItem]
    rw [knownItem, Bool.and_eq_false_iff] at hk
    cases hg : s.gettype ty with
    | none => rfl
    | some te =>
      cases te with
      | abstract_ n subs => rfl
      | concrete t =>
        simp only
        rcases hk with hk | hk
        · rw [hg] at hk; cases hk
        · cases getsectioninfo s m.ty (t.name.getD []) nm with
          | error e => rfl
          | ok ci =>
            simp only
            split
            · rfl
            · split
              · rfl
              · have := evalItems_unknown conv s sub (newMatcher t nm none) hk
                cases he : evalItems conv s (newMatcher t nm none) sub with
                | error e => rfl
                | ok child => rw [he] at this; cases this
theorem evalItems_unknown (conv : Conv) (s : Schema) :
    ∀ (l : List Item) (m : Matcher), knownItems s l = false → (evalItems conv s m l).toOption = none
  | [], _, h => by rw [knownItems] at h; cases h
  | i :: r, m, h => by
    rw [knownItems, Bool.and_eq_false_iff] at h
    rw [evalItems]
    cases he : evalItem conv s m i with
    | error e => rfl
    | ok m' =>
      simp only
      rcases h with h | h
      · have := evalItem_unknown conv s i m h
        rw [he] at this
        cases this
      · exact evalItems_unknown conv s r m' h
end

/-! ### the loader's evaluation of one item is the same in the grown schema -/

theorem evalItem_sect_toOption (conv : Conv) (s : Schema) (m : Matcher) (ty : Str) (nm : Option Str) (sub : List Item) :
    (evalItem conv s m (.sect ty nm sub)).toOption =
      match s.gettype ty with
      | some (.concrete t) =>
        (getsectioninfo s m.ty (t.name.getD []) nm).toOption.bind fun ci =>
          if !isAllowedName ci nm then none
          else if !(nm.isSome || allowUnnamed ci) then none
          else (evalContainer conv s t nm sub).toOption.bind fun v => (addSection s m ty nm v).toOption
      | _ => none := by
  rw [evalItem]
  cases s.gettype ty with
  | none => rfl
  | some te =>
    cases te with
    | abstract_ n subs => rfl
    | concrete t =>
      simp only
      cases getsectioninfo s m.ty (t.name.getD []) nm with
      | error e => rfl
      | ok ci =>
        simp only [toOption_ok, Option.bind_some]
        split
        · rfl
        · split
          · rfl
          · unfold evalContainer
            cases evalItems conv s (newMatcher t nm none) sub with
            | error e => rfl
            | ok child =>
              simp only
              cases finishMatcher conv s child with
              | error e => rfl
              | ok vh => rfl

theorem addSection_toOption_congr (s s' : Schema) (m : Matcher) (ty : Str) (nm : Option Str) (v : Val)
    (h : (getsectioninfo s' m.ty ty nm).toOption = (getsectioninfo s m.ty ty nm).toOption) :
    (addSection s' m ty nm v).toOption = (addSection s m ty nm v).toOption := by
  rw [addSection_eq, addSection_eq]
  split
  · rfl
  · cases h1 : getsectioninfo s' m.ty ty nm with
    | error e1 =>
      cases h2 : getsectioninfo s m.ty ty nm with
      | error e2 => rfl
      | ok c2 => rw [h1, h2] at h; cases h
    | ok c1 =>
      cases h2 : getsectioninfo s m.ty ty nm with
      | error e2 => rw [h1, h2] at h; cases h
      | ok c2 =>
        rw [h1, h2] at h
        cases h
        rfl

/-- **one item, evaluated by the loader against the grown schema**: accepted iff accepted against the smaller schema,
    with the same resulting matcher — for an item all of whose headers name types of the smaller schema -/
theorem evalItem_grow (conv : Conv) {s s' : Schema} (hs : schemaOK s = true) (hs' : schemaOK s' = true) (hg : Grow s s')
    (m : Matcher) (hT : STypeOK s m.ty) (hk : slotsKnown s m.ty) :
    ∀ (i : Item), lowItem i = true → knownItem s i = true →
      (evalItem conv s' m i).toOption = (evalItem conv s m i).toOption
  | .kv _ _ _, _, _ => by rw [evalItem, evalItem]
  | .sect ty nm sub, hl, hkn => by
    obtain ⟨hkey, hsome, hlow⟩ := hdr_key s ty nm sub hl hkn
    have hl' := hl
    have hk' := hkn
    rw [lowItem, Bool.and_eq_true] at hl'
    rw [knownItem, Bool.and_eq_true] at hk'
    rw [evalItem_sect_toOption, evalItem_sect_toOption]
    rcases gettype_grow hg ty hsome with ⟨t, h1, h2⟩ | ⟨h1, h2⟩
    · rw [h1, h2]
      simp only
      obtain ⟨hOK, hname⟩ := schemaOK_type s hs ty t h1
      obtain ⟨hOK', _⟩ := schemaOK_type s' hs' ty t h2
      rw [hname, hlow]
      simp only [Option.getD_some]
      rw [getsectioninfo_grow hg m.ty hT hk ty nm hkey]
      apply option_bind_congr
      intro ci _
      have hc : (evalContainer conv s' t nm sub).toOption = (evalContainer conv s t nm sub).toOption := by
        rw [pItems conv s' hs' sub (tyCanon_of_low s' hs' sub hl'.2) t nm (stypeOK_prop s' t hOK'),
          pItems conv s hs sub (tyCanon_of_low s hs sub hl'.2) t nm (stypeOK_prop s t hOK),
          itemVals_grow conv hs hg sub hl'.2 hk'.2,
          containerVal_grow conv hg t (stypeOK_slotsKnown s t hOK) nm sub _ hl'.2 hk'.2]
      rw [hc]
      split
      · rfl
      · split
        · rfl
        · apply option_bind_congr
          intro v _
          exact addSection_toOption_congr s s' m ty nm v (getsectioninfo_grow hg m.ty hT hk ty nm hkey)
    · unfold isAbstract at h1 h2
      split at h1
      · rename_i e1
        split at h2
        · rename_i e2
          rw [e1, e2]
        · cases h2
      · cases h1

end ZCV.Conf
