import ZCV.Lemmas.NameRx
/-! `_split` and the `substitute` loop compute the documented function. -/
namespace ZCV.Subst
open ZCV ZCV.Rx ZCV.SubstSpec

/-- the model's error type is the spec's (same constructors) -/
def toSpecErr : Err → SubstSpec.Err
  | .syntax c => .syntax c
  | .missing s n => .missing s n

theorem findIdx_first (pre t : Str) (hp : '$' ∉ pre) :
    (pre ++ '$' :: t).findIdx (· == '$') = pre.length := by
  induction pre with
  | nil => simp [List.findIdx_cons]
  | cons c p ih =>
    have hc : (c == '$') = false := by
      simp only [List.mem_cons, not_or] at hp; simpa using fun h => hp.1 h.symm
    have := ih (by simp only [List.mem_cons, not_or] at hp; exact hp.2)
    simp [List.findIdx_cons, hc, this]

theorem drop_pre (pre : Str) (u : Str) (k : Nat) : List.drop (pre.length + k) (pre ++ u) = u.drop k := by
  rw [List.drop_append]; simp
theorem drop_pre_eq (pre u : Str) (n k : Nat) (h : n = pre.length + k) :
    List.drop n (pre ++ u) = u.drop k := by subst h; exact drop_pre pre u k
theorem take_pre (pre : Str) (u : Str) (k : Nat) : List.take (pre.length + k) (pre ++ u) = pre ++ u.take k := by
  rw [List.take_append]; simp [List.take_of_length_le]

theorem nameMatchAt_pre2 (pre r : Str) (o : Char) :
    nameMatchAt (pre ++ '$' :: o :: r) (pre.length + 2) =
      (nameSplit r).map (fun p => (p.1, pre.length + 2 + p.1.length)) := by
  have := nameMatchAt_eq (pre ++ ['$', o]) r
  simpa using this

theorem nameMatchAt_pre1 (pre t : Str) :
    nameMatchAt (pre ++ '$' :: t) (pre.length + 1) =
      (nameSplit t).map (fun p => (p.1, pre.length + 1 + p.1.length)) := by
  have := nameMatchAt_eq (pre ++ ['$']) t
  simpa using this

theorem braced_char (pre r pfx : Str) (o close : Char) (vt : VT) (e1 e2 : Nat) :
    braced (pre ++ '$' :: o :: r) pre.length pfx close vt e1 e2 =
      match nameSplit r with
      | none => .error (.syntax e1)
      | some (name, x :: r') => if x = close then .ok (pfx, some (name, vt), r') else .error (.syntax e2)
      | some (_, []) => .error (.syntax e2) := by
  unfold braced
  rw [nameMatchAt_pre2]
  cases hn : nameSplit r with
  | none => rfl
  | some pr =>
    obtain ⟨name, rest⟩ := pr
    have hr := nameSplit_split r name rest hn
    subst hr
    have d1 : List.drop (2 + name.length) ('$' :: o :: (name ++ rest)) = rest := by
      have : 2 + name.length = name.length + 2 := by omega
      rw [this]; simp
    have d2 : List.drop (2 + name.length + 1) ('$' :: o :: (name ++ rest)) = rest.drop 1 := by
      have : 2 + name.length + 1 = name.length + 1 + 2 := by omega
      rw [this]; simp [List.drop_append]
    simp only [Option.map_some]
    rw [drop_pre_eq pre _ (pre.length + 2 + name.length + 1 - 1) (2 + name.length) (by omega),
        drop_pre_eq pre _ (pre.length + 2 + name.length + 1) (2 + name.length + 1) (by omega), d1, d2]
    cases rest with
    | nil => simp
    | cons x xs => by_cases hx : x = close <;> simp [hx]

/-- what `_split` computes, stated structurally on the text after the first '$' -/
theorem split_char (pre t : Str) (hp : '$' ∉ pre) :
    split (pre ++ '$' :: t) =
      match t with
      | [] => .error (.syntax 0)
      | c :: r =>
        if c = '$' then .ok (pre ++ ['$'], none, r)
        else if c = '{' then braced (pre ++ '$' :: c :: r) pre.length pre '}' .define 1 2
        else if c = '(' then braced (pre ++ '$' :: c :: r) pre.length pre ')' .env 3 4
        else match nameSplit (c :: r) with
          | none => .error (.syntax 5)
          | some (name, r') => .ok (pre, some (name, .define), r') := by
  have hi := findIdx_first pre t hp
  have hcont : (pre ++ '$' :: t).contains '$' = true := by simp
  have ht0 : List.take pre.length (pre ++ '$' :: t) = pre := by simp
  unfold split
  simp only [hcont, ↓reduceIte, hi, drop_pre, take_pre, ht0, nameMatchAt_pre1]
  cases t with
  | nil => simp
  | cons c r =>
    simp only [List.drop_succ_cons, List.drop_zero, List.take_succ_cons, List.take_zero]
    by_cases h1 : c = '$'
    · subst h1; simp
    · have hc1 : ([c] == ['$']) = false := by simp [h1]
      have hc0 : ([c] == ([] : Str)) = false := by simp
      simp only [hc0, hc1, Bool.false_eq_true, ↓reduceIte, h1]
      by_cases h2 : c = '{'
      · subst h2; simp
      · have hc2 : ([c] == ['{']) = false := by simp [h2]
        simp only [hc2, Bool.false_eq_true, ↓reduceIte, h2]
        by_cases h3 : c = '('
        · subst h3; simp
        · have hc3 : ([c] == ['(']) = false := by simp [h3]
          simp only [hc3, Bool.false_eq_true, ↓reduceIte, h3]
          cases hn : nameSplit (c :: r) with
          | none => rfl
          | some pr =>
            obtain ⟨name, rest⟩ := pr
            have hr := nameSplit_split (c :: r) name rest hn
            have d1 : List.drop (1 + name.length) ('$' :: c :: r) = rest := by
              rw [hr]; have : 1 + name.length = name.length + 1 := by omega
              rw [this]; simp
            simp only [Option.map_some]
            rw [drop_pre_eq pre _ (pre.length + 1 + name.length) (1 + name.length) (by omega), d1]

theorem split_nodollar (s : Str) (h : '$' ∉ s) : split s = .ok (s, none, []) := by
  unfold split
  have : s.contains '$' = false := by simpa using h
  simp only [this, Bool.false_eq_true, ↓reduceIte]

theorem exists_first_dollar (s : Str) (h : '$' ∈ s) : ∃ pre t, s = pre ++ '$' :: t ∧ '$' ∉ pre := by
  induction s with
  | nil => simp at h
  | cons c r ih =>
    by_cases hc : c = '$'
    · subst hc; exact ⟨[], r, by simp, by simp⟩
    · have hr : '$' ∈ r := by
        rcases List.mem_cons.mp h with h | h
        · exact absurd h.symm hc
        · exact h
      obtain ⟨pre, t, h1, h2⟩ := ih hr
      refine ⟨c :: pre, t, by simp [h1], ?_⟩
      simp [h2]; exact fun h => hc h.symm

end ZCV.Subst

namespace ZCV.SubstSpec
@[simp] theorem map_ok {α β ε} (f : α → β) (a : α) : (Except.ok a : Except ε α).map f = .ok (f a) := rfl
@[simp] theorem map_err {α β ε} (f : α → β) (e : ε) : (Except.error e : Except ε α).map f = .error e := rfl
theorem map_map {α β γ ε} (f : α → β) (g : β → γ) (x : Except ε α) : (x.map f).map g = x.map (g ∘ f) := by
  cases x <;> rfl

theorem spec_nil (defs env src) : spec defs env src [] = .ok [] := by unfold spec; rfl

theorem spec_lit (defs env src) (c : Char) (t : Str) (hc : c ≠ '$') :
    spec defs env src (c :: t) = (spec defs env src t).map (c :: ·) := by
  rw [spec]
  · intro h; exact absurd h hc

theorem spec_prefix (defs env src) (pre u : Str) (hp : '$' ∉ pre) :
    spec defs env src (pre ++ u) = (spec defs env src u).map (pre ++ ·) := by
  induction pre with
  | nil =>
    simp only [List.nil_append]
    cases spec defs env src u <;> simp
  | cons c p ih =>
    have hc : c ≠ '$' := by intro h; apply hp; simp [h]
    have hp' : '$' ∉ p := by intro h; apply hp; simp [h]
    rw [List.cons_append, spec_lit _ _ _ _ _ hc, ih hp', map_map]; rfl
end ZCV.SubstSpec

namespace ZCV.Subst
open ZCV ZCV.SubstSpec

/-- result of the model in the spec's error vocabulary -/
def conv (x : Except Err Str) : Except SubstSpec.Err Str :=
  match x with | .ok v => .ok v | .error e => .error (toSpecErr e)

theorem loop_eq (defs env : Str → Option Str) (src : Str) :
    ∀ (fuel : Nat) (rest acc : Str), rest.length < fuel →
      conv (substLoop defs env src fuel rest acc) = (spec defs env src rest).map (acc ++ ·) := by
  intro fuel
  induction fuel with
  | zero => intro rest acc h; omega
  | succ fuel ih =>
    intro rest acc hlen
    unfold substLoop
    by_cases hnil : rest = []
    · subst hnil; simp [spec_nil, conv]
    · have hne : (rest == []) = false := by simpa using hnil
      simp only [hne, Bool.false_eq_true, ↓reduceIte]
      by_cases hd : '$' ∈ rest
      · obtain ⟨pre, t, hs, hp⟩ := exists_first_dollar rest hd
        subst hs
        rw [split_char pre t hp, spec_prefix _ _ _ _ _ hp]
        have hl : t.length < fuel := by simp at hlen; omega
        cases t with
        | nil => simp [spec, conv, toSpecErr]
        | cons c r =>
          have hr : r.length < fuel := by simp at hl; omega
          by_cases h1 : c = '$'
          · subst h1
            simp only [↓reduceIte]
            rw [ih r _ hr, spec]
            simp [map_map, Function.comp_def]
          · simp only [h1, ↓reduceIte]
            by_cases h2 : c = '{'
            · subst h2
              simp only [↓reduceIte, braced_char]
              rw [spec]
              cases hn : nameSplit r with
              | none => simp [conv, toSpecErr]
              | some pr =>
                obtain ⟨name, rest⟩ := pr
                have hlen' := nameSplit_len r name rest hn
                cases rest with
                | nil => simp [conv, toSpecErr]
                | cons x xs =>
                  by_cases hx : x = '}'
                  · subst hx
                    simp only [↓reduceIte]
                    cases hv : defs (lower name) with
                    | none => simp [conv, toSpecErr]
                    | some v =>
                      simp only
                      rw [ih xs _ (by simp at hlen'; omega)]
                      simp [map_map, Function.comp_def]
                  · simp [hx, conv, toSpecErr]
            · simp only [h2, ↓reduceIte]
              by_cases h3 : c = '('
              · subst h3
                simp only [↓reduceIte, braced_char]
                rw [spec]
                cases hn : nameSplit r with
                | none => simp [conv, toSpecErr]
                | some pr =>
                  obtain ⟨name, rest⟩ := pr
                  have hlen' := nameSplit_len r name rest hn
                  cases rest with
                  | nil => simp [conv, toSpecErr]
                  | cons x xs =>
                    by_cases hx : x = ')'
                    · subst hx
                      simp only [↓reduceIte]
                      cases hv : env name with
                      | none => simp [conv, toSpecErr]
                      | some v =>
                        simp only
                        rw [ih xs _ (by simp at hlen'; omega)]
                        simp [map_map, Function.comp_def]
                    · simp [hx, conv, toSpecErr]
              · simp only [h3, ↓reduceIte]
                rw [spec]
                · cases hn : nameSplit (c :: r) with
                  | none => simp [conv, toSpecErr]
                  | some pr =>
                    obtain ⟨name, rest⟩ := pr
                    have hlen' := nameSplit_len (c :: r) name rest hn
                    simp only
                    cases hv : defs (lower name) with
                    | none => simp [conv, toSpecErr]
                    | some v =>
                      simp only
                      rw [ih rest _ (by simp at hlen'; omega)]
                      simp [map_map, Function.comp_def]
                all_goals (intros; simp_all)
      · rw [split_nodollar rest hd]
        simp only
        have := spec_prefix defs env src rest [] hd
        simp only [List.append_nil, spec_nil, map_ok] at this
        rw [this]
        cases fuel with
        | zero => simp [substLoop, conv]
        | succ f => simp [substLoop, conv]

end ZCV.Subst
