import ZCV.Lemmas.HistoryRun
/-!
C13 (faithful histories), part 4: an EXACT simulation principle for the parser.

`parse_sim` / `parse_simI` compare two parser contexts up to acceptance.  Here one context is run from two related
states and the two runs are compared exactly: both fail with the same error, or both succeed in related states
(`ExRel`).  If every operation of the context respects the relation in that sense, so does every line, every resource,
every prefix of one (any fuel, any include depth).
-/
namespace ZCV.Cfg
open ZCV

/-- both fail in the same way, or both succeed with related results -/
def ExRel {α β : Type} (R : α → β → Prop) : M α → M β → Prop
  | .ok a, .ok b => R a b
  | .error e, .error f => e = f
  | _, _ => False

theorem ExRel.ok {α β : Type} {R : α → β → Prop} {a : α} {b : β} (h : R a b) : ExRel R (.ok a) (.ok b) := h
theorem ExRel.error {α β : Type} {R : α → β → Prop} (e : Fail) : ExRel R (.error e : M α) (.error e : M β) := rfl

theorem ExRel.bind {α β α' β' : Type} {R : α → β → Prop} {R' : α' → β' → Prop} {x : M α} {y : M β}
    {f : α → M α'} {g : β → M β'} (h : ExRel R x y) (hf : ∀ a b, R a b → ExRel R' (f a) (g b)) :
    ExRel R' (x >>= f) (y >>= g) := by
  cases x <;> cases y
  · exact h
  · exact h.elim
  · exact h.elim
  · exact hf _ _ h

/-- `bind`, with the continuation knowing which results it continues from -/
theorem ExRel.bind' {α β α' β' : Type} {R : α → β → Prop} {R' : α' → β' → Prop} {x : M α} {y : M β}
    {f : α → M α'} {g : β → M β'} (h : ExRel R x y)
    (hf : ∀ a b, x = .ok a → y = .ok b → R a b → ExRel R' (f a) (g b)) : ExRel R' (x >>= f) (y >>= g) := by
  cases x <;> cases y
  · exact h
  · exact h.elim
  · exact h.elim
  · exact hf _ _ rfl rfl h

/-- a computation against the same computation with its result mapped -/
theorem ExRel.map_right {α β : Type} {R : α → β → Prop} (x : M α) (f : α → β) (hf : ∀ a, x = .ok a → R a (f a)) :
    ExRel R x (x.map f) := by
  cases x with
  | error e => rfl
  | ok a => exact hf a rfl

theorem ExRel.map {α β α' β' : Type} {R : α → β → Prop} {R' : α' → β' → Prop} {x : M α} {y : M β}
    {f : α → α'} {g : β → β'} (h : ExRel R x y) (hf : ∀ a b, R a b → R' (f a) (g b)) :
    ExRel R' (x.map f) (y.map g) := by
  cases x <;> cases y
  · exact h
  · exact h.elim
  · exact h.elim
  · exact hf _ _ h

theorem ExRel.mono {α β : Type} {R R' : α → β → Prop} {x : M α} {y : M β} (h : ExRel R x y)
    (hr : ∀ a b, R a b → R' a b) : ExRel R' x y := by
  cases x <;> cases y
  · exact h
  · exact h.elim
  · exact h.elim
  · exact hr _ _ h

/-- the same computation on both sides -/
theorem ExRel.same {α : Type} (x : M α) : ExRel (fun a b => a = b) x x := by
  cases x <;> rfl

theorem ExRel.bind_same {γ α' β' : Type} {R' : α' → β' → Prop} (x : M γ) {f : γ → M α'} {g : γ → M β'}
    (hf : ∀ a, ExRel R' (f a) (g a)) : ExRel R' (x >>= f) (x >>= g) :=
  (ExRel.same x).bind (fun a b hab => by subst hab; exact hf a)

theorem ExRel.ok_left {α β : Type} {R : α → β → Prop} {x : M α} {y : M β} (h : ExRel R x y) (a : α) (hx : x = .ok a) :
    ∃ b, y = .ok b ∧ R a b := by
  subst hx
  cases y with
  | error f => exact h.elim
  | ok b => exact ⟨b, rfl, h⟩

theorem ExRel.error_left {α β : Type} {R : α → β → Prop} {x : M α} {y : M β} (h : ExRel R x y) (e : Fail)
    (hx : x = .error e) : y = .error e := by
  subst hx
  cases y with
  | error f => exact congrArg _ h.symm
  | ok b => exact h.elim

/-- every operation of the context respects `R`, exactly -/
structure OpsSimE {σ : Type} (c : PCtx σ) (R : σ → σ → Prop) : Prop where
  start : ∀ a b ty nm, R a b → ExRel R (c.start a ty nm) (c.start b ty nm)
  stop : ∀ a b ty nm, R a b → ExRel R (c.stop a ty nm) (c.stop b ty nm)
  value : ∀ a b k v p, R a b → ExRel R (c.value a k v p) (c.value b k v p)
  imp : ∀ a b pkg, R a b → ExRel R (c.imp a pkg) (c.imp b pkg)

/-- two parser states with the same open sections and definitions and related contexts -/
def PSR {σ : Type} (R : σ → σ → Prop) (p p' : PS σ) : Prop := p'.stack = p.stack ∧ p'.defs = p.defs ∧ R p.ctx p'.ctx

section sim
variable {σ : Type} {c : PCtx σ} {R : σ → σ → Prop}

theorem closeFixup_error_ex (url : Option Str) (line : Nat) (e : Fail) :
    ∃ f, closeFixup (σ := σ) url line (.error e) = .error f := by
  cases e with
  | cfg er =>
    unfold closeFixup
    simp only
    split
    · exact ⟨_, rfl⟩
    · exact ⟨_, rfl⟩
  | internal x => exact ⟨_, rfl⟩
  | dtExc n => exact ⟨_, rfl⟩

theorem closeFixup_simE (url : Option Str) (line : Nat) {x y : M σ} (h : ExRel R x y) :
    ExRel R (closeFixup url line x) (closeFixup url line y) := by
  cases x <;> cases y
  · have he : _ = _ := h
    subst he
    obtain ⟨f, hf⟩ := closeFixup_error_ex (σ := σ) url line ‹Fail›
    rw [hf]
    rfl
  · exact h.elim
  · exact h.elim
  · exact h

theorem openSection_simE (H : OpsSimE c R) (url : Option Str) (line : Nat) (ty : Str) (nm : Option Str) (e : Bool)
    (st st' : PS σ) (h : PSR R st st') :
    ExRel (PSR R) (openSection c url line ty nm e st) (openSection c url line ty nm e st') := by
  obtain ⟨hstk, hdefs, hR⟩ := h
  unfold openSection
  have hs := H.start _ _ ty nm hR
  cases h1 : c.start st.ctx ty nm with
  | error f =>
    rw [hs.error_left f h1]
    cases f <;> rfl
  | ok ctx1 =>
    obtain ⟨ctx1', h1', hR1⟩ := hs.ok_left ctx1 h1
    rw [h1']
    simp only
    cases e with
    | true =>
      simp only [if_true]
      exact (closeFixup_simE url line (H.stop _ _ ty nm hR1)).map (fun a b hab => ⟨hstk, hdefs, hab⟩)
    | false =>
      simp only [Bool.false_eq_true, if_false]
      exact ExRel.ok ⟨by simp only [hstk], hdefs, hR1⟩

theorem closeSection_simE (H : OpsSimE c R) (url : Option Str) (line : Nat) (ty : Str)
    (st st' : PS σ) (h : PSR R st st') :
    ExRel (PSR R) (closeSection c url line ty st) (closeSection c url line ty st') := by
  obtain ⟨hstk, hdefs, hR⟩ := h
  unfold closeSection
  rw [hstk]
  cases st.stack with
  | nil => rfl
  | cons p T =>
    obtain ⟨ot, name⟩ := p
    simp only
    split
    · rfl
    · exact (closeFixup_simE url line (H.stop _ _ ty name hR)).map (fun a b hab => ⟨rfl, hdefs, hab⟩)

theorem kvCore_simE (H : OpsSimE c R) (url : Option Str) (line : Nat) (k v : Str) (st st' : PS σ) (h : PSR R st st') :
    ExRel (PSR R) (kvCore c url line k v st) (kvCore c url line k v st') := by
  obtain ⟨hstk, hdefs, hR⟩ := h
  unfold kvCore
  have hv := H.value _ _ k v { line := line, url := url } hR
  cases h1 : c.value st.ctx k v { line := line, url := url } with
  | error f =>
    rw [hv.error_left f h1]
    cases f <;> rfl
  | ok ctx1 =>
    obtain ⟨ctx1', h1', hR1⟩ := hv.ok_left ctx1 h1
    rw [h1']
    exact ExRel.ok ⟨hstk, hdefs, hR1⟩

/-- one line; the `%include` arm needs the statement for the included resource, at smaller fuel -/
theorem stepLine_simE (H : OpsSimE c R) (env : Env) (fuel : Nat)
    (ih : ∀ f, fuel = f + 1 → ∀ (active : List Str) (url : Option Str) (lines : List Str) (n : Nat) (st st' : PS σ),
      PSR R st st' → ExRel (PSR R) (parseLines f env c active url lines n st) (parseLines f env c active url lines n st'))
    (active : List Str) (url : Option Str) (line : Nat) (l : Str) (st st' : PS σ) (h : PSR R st st') :
    ExRel (PSR R) (stepLine fuel env c active url line l st) (stepLine fuel env c active url line l st') := by
  have ⟨hstk, hdefs, hR⟩ := h
  cases hs : lineShape l with
  | skip => rw [stepLine, stepLine]; simp only [hs]; exact ExRel.ok h
  | bad t => rw [stepLine, stepLine]; simp only [hs]; rfl
  | internal t => rw [stepLine, stepLine]; simp only [hs]; rfl
  | close ty => rw [stepLine, stepLine]; simp only [hs]; exact closeSection_simE H _ _ _ _ _ h
  | open_ ty nm e => rw [stepLine, stepLine]; simp only [hs]; exact openSection_simE H _ _ _ _ _ _ _ h
  | kv k raw =>
    rw [stepLine, stepLine]; simp only [hs]
    rw [keyValue_eq, keyValue_eq, hdefs]
    exact ExRel.bind_same _ (fun v => kvCore_simE H _ _ _ _ _ _ h)
  | define a =>
    rw [stepLine_define _ _ _ _ _ _ _ _ _ hs, stepLine_define _ _ _ _ _ _ _ _ _ hs]
    unfold defStep
    rw [hdefs]
    split
    · rfl
    · exact (ExRel.same _).map (fun d d' hd => by subst hd; exact ⟨hstk, rfl, hR⟩)
  | import_ a =>
    rw [stepLine_import _ _ _ _ _ _ _ _ _ hs, stepLine_import _ _ _ _ _ _ _ _ _ hs]
    unfold impStep
    rw [hdefs]
    exact ExRel.bind_same _ (fun pkg => (H.imp _ _ pkg hR).map (fun a b hab => ⟨hstk, rfl, hab⟩))
  | include_ a =>
    rw [stepLine_include _ _ _ _ _ _ _ _ _ hs, stepLine_include _ _ _ _ _ _ _ _ _ hs]
    unfold incStep
    rw [hdefs]
    refine ExRel.bind_same _ (fun a' => ?_)
    split
    · rfl
    · split
      · rfl
      · rfl
      · split
        · rfl
        · split
          · rfl
          · cases fuel with
            | zero => rfl
            | succ f =>
              simp only
              refine (ih f rfl _ _ _ _ { ctx := st.ctx, stack := [], defs := st.defs }
                { ctx := st'.ctx, stack := [], defs := st.defs } ⟨rfl, rfl, hR⟩).bind ?_
              intro sa sb hab
              exact ExRel.ok ⟨hstk, hab.2.1, hab.2.2⟩

theorem runLines_simE_of_step (fuel : Nat) (env : Env)
    (hstep : ∀ (active : List Str) (url : Option Str) (line : Nat) (l : Str) (st st' : PS σ), PSR R st st' →
      ExRel (PSR R) (stepLine fuel env c active url line l st) (stepLine fuel env c active url line l st'))
    (active : List Str) (url : Option Str) :
    ∀ (lines : List Str) (n : Nat) (st st' : PS σ), PSR R st st' →
      ExRel (PSR R) (runLines fuel env c active url lines n st) (runLines fuel env c active url lines n st') := by
  intro lines
  induction lines with
  | nil => intro n st st' h; exact ExRel.ok h
  | cons l rest ihl =>
    intro n st st' h
    simp only [runLines]
    exact (hstep _ _ _ _ _ _ h).bind (fun a b hab => ihl _ _ _ hab)

theorem finish_simE (url : Option Str) (k : Nat) (st st' : PS σ) (h : PSR R st st') :
    ExRel (PSR R) (finish url k st) (finish url k st') := by
  unfold finish
  rw [h.1]
  split
  · rfl
  · exact ExRel.ok h

theorem parseLines_simE_of_step (fuel : Nat) (env : Env)
    (hstep : ∀ (active : List Str) (url : Option Str) (line : Nat) (l : Str) (st st' : PS σ), PSR R st st' →
      ExRel (PSR R) (stepLine fuel env c active url line l st) (stepLine fuel env c active url line l st'))
    (active : List Str) (url : Option Str) (lines : List Str) (n : Nat) (st st' : PS σ) (h : PSR R st st') :
    ExRel (PSR R) (parseLines fuel env c active url lines n st) (parseLines fuel env c active url lines n st') := by
  rw [parseLines_eq_run, parseLines_eq_run]
  exact (runLines_simE_of_step fuel env hstep active url lines n st st' h).bind (fun a b hab => finish_simE _ _ _ _ hab)

/-- **every line, at any include depth** -/
theorem step_simE (H : OpsSimE c R) (env : Env) : ∀ (fuel : Nat) (active : List Str) (url : Option Str) (line : Nat)
    (l : Str) (st st' : PS σ), PSR R st st' →
      ExRel (PSR R) (stepLine fuel env c active url line l st) (stepLine fuel env c active url line l st') := by
  intro fuel
  induction fuel with
  | zero => exact stepLine_simE H env 0 (fun f hf => by omega)
  | succ f ihf =>
    refine stepLine_simE H env (f + 1) ?_
    intro f' hf
    have : f = f' := by omega
    subst this
    exact parseLines_simE_of_step f env ihf

/-- **a whole resource** -/
theorem parse_simE (H : OpsSimE c R) (env : Env) (fuel : Nat) (active : List Str) (url : Option Str) (lines : List Str)
    (n : Nat) (st st' : PS σ) (h : PSR R st st') :
    ExRel (PSR R) (parseLines fuel env c active url lines n st) (parseLines fuel env c active url lines n st') :=
  parseLines_simE_of_step fuel env (step_simE H env fuel) active url lines n st st' h

/-- **every prefix of one** -/
theorem run_simE (H : OpsSimE c R) (env : Env) (fuel : Nat) (active : List Str) (url : Option Str) (lines : List Str)
    (n : Nat) (st st' : PS σ) (h : PSR R st st') :
    ExRel (PSR R) (runLines fuel env c active url lines n st) (runLines fuel env c active url lines n st') :=
  runLines_simE_of_step fuel env (step_simE H env fuel) active url lines n st st' h

end sim

end ZCV.Cfg
