import ZCV.Lemmas.ElabNoIntDoc
/-!
No internal errors, continued: the character-data elements (`description`, `example`, `metadefault`, `default`).
-/
namespace ZCV.Elab
open ZCV ZCV.Cfg

variable {P : String → Prop}

/-- `characters_description` finds an object it can mark -/
def DescOK (isC : Bool) (st : PSt) : Prop :=
  match st.stack with
  | [] => isC = true
  | .stype n :: _ => kindAt st.es n = some true
  | .atype n :: _ => kindAt st.es n = some false
  | _ => True

/-- `characters_example` finds an object it can mark -/
def ExOK (st : PSt) : Prop :=
  match st.stack with
  | .schema :: _ => True
  | .stype n :: _ => kindAt st.es n = some true
  | .key _ :: _ => True
  | .sect _ _ :: _ => True
  | _ => False

theorem markDesc_ni {c : Bool} {st : PSt} (h : DescOK c st) : NIx P (markDesc c st) := by
  unfold DescOK at h
  unfold markDesc
  split
  · rename_i hs
    simp only [hs] at h
    simp only [h, ↓reduceIte]
    exact NIx.ok _
  · rename_i f rest hs
    dsimp only
    cases f with
    | schema => dsimp only; repeat' ni_step
    | stype n =>
      simp only [hs] at h
      obtain ⟨p, t, hf⟩ := kindAt_concrete h
      simp only [hf]
      repeat' ni_step
    | atype n =>
      simp only [hs] at h
      obtain ⟨p, a, s, d, hf⟩ := kindAt_abstract h
      simp only [hf]
      repeat' ni_step
    | key k => dsimp only; repeat' ni_step
    | sect a b => dsimp only; repeat' ni_step

theorem markExample_ni {st : PSt} (h : ExOK st) : NIx P (markExample st) := by
  unfold ExOK at h
  unfold markExample
  split
  · rename_i hs
    simp only [hs] at h
  · rename_i f rest hs
    dsimp only
    cases f with
    | schema => dsimp only; repeat' ni_step
    | stype n =>
      simp only [hs] at h
      obtain ⟨p, t, hf⟩ := kindAt_concrete h
      simp only [hf]
      repeat' ni_step
    | atype n => simp only [hs] at h
    | key k => dsimp only; repeat' ni_step
    | sect a b => dsimp only; repeat' ni_step

/-- what a character-data element may do to the parser state: set flags on the frame on top of the stack or on the
    object it stands for, add a default to the key being read -/
structure CdataStep (st st' : PSt) : Prop where
  prefixes : st'.prefixes = st.prefixes
  kinds : kinds st'.es = kinds st.es
  keys : KeysOK st.es → KeysOK st'.es
  top : (st'.stack = st.stack ∧ ((∃ k rest, st.stack = .key k :: rest) → st'.es = st.es)) ∨
        (∃ k k' rest, st.stack = .key k :: rest ∧ st'.stack = .key k' :: rest ∧ st'.es = st.es ∧ KeyShape k' ∧
          k'.name = k.name ∧ k'.attr = k.attr) ∨
        (∃ a b a' b' rest, st.stack = .sect a b :: rest ∧ st'.stack = .sect a' b' :: rest)

theorem CdataStep.refl (st : PSt) : CdataStep st st := ⟨rfl, rfl, id, Or.inl ⟨rfl, fun _ => rfl⟩⟩

theorem CdataStep.top_flags {st : PSt} (hnk : ∀ k rest, st.stack ≠ .key k :: rest) (t : EType)
    (hc : t.children = st.es.top.children) : CdataStep st { st with es := { st.es with top := t } } :=
  ⟨rfl, rfl, fun h => h.top_congr t hc, Or.inl ⟨rfl, fun ⟨k, rest, hs⟩ => absurd hs (hnk k rest)⟩⟩

theorem CdataStep.updType_flags {st : PSt} (hnk : ∀ k rest, st.stack ≠ .key k :: rest) (n : Str) (f : EType → EType)
    (hf : ∀ t, (f t).children = t.children) : CdataStep st { st with es := st.es.updType n f } :=
  ⟨rfl, kinds_updType _ _ _, fun h => h.updType n f (fun t ht => by rw [hf t]; exact ht),
    Or.inl ⟨rfl, fun ⟨k, rest, hs⟩ => absurd hs (hnk k rest)⟩⟩

theorem CdataStep.abstract_flags {st : PSt} (hnk : ∀ k rest, st.stack ≠ .key k :: rest) (n : Str) :
    CdataStep st { st with es := { st.es with types := st.es.types.map fun (k, e) =>
      if k == n then (k, match e with | .abstract_ nm subs _ => .abstract_ nm subs true | o => o) else (k, e) } } := by
  refine ⟨rfl, kinds_map _ _ ?_, fun h => h.map _ ?_, Or.inl ⟨rfl, fun ⟨k, rest, hs⟩ => absurd hs (hnk k rest)⟩⟩
  · intro ⟨k, e⟩; dsimp only; split
    · cases e <;> exact ⟨rfl, rfl⟩
    · exact ⟨rfl, rfl⟩
  · intro ⟨k, e⟩ t ht
    dsimp only at ht
    split at ht
    · cases e with
      | concrete t0 => exact ⟨t0, rfl, by cases ht; exact id⟩
      | abstract_ a b c => cases ht
    · exact ⟨t, ht, id⟩

theorem markDesc_step {c : Bool} {st st' : PSt} (hkey : ∀ k rest, st.stack = .key k :: rest → KeyShape k)
    (h : markDesc c st = .ok st') : CdataStep st st' := by
  unfold markDesc at h
  split at h
  · split at h
    · injection h with h; subst h; exact CdataStep.refl _
    · cases h
  · rename_i f rest hs
    dsimp only at h
    split at h
    · rcases ite_ok h with ⟨_, h⟩ | ⟨_, h⟩
      · cases h
      · injection h with h; subst h
        exact CdataStep.top_flags (by intro k r hk; rw [hs] at hk; cases hk) _ rfl
    · split at h
      · rcases ite_ok h with ⟨_, h⟩ | ⟨_, h⟩
        · cases h
        · injection h with h; subst h
          exact CdataStep.updType_flags (by intro k r hk; rw [hs] at hk; cases hk) _ _ (fun _ => rfl)
      · cases h
    · split at h
      · rcases ite_ok h with ⟨_, h⟩ | ⟨_, h⟩
        · cases h
        · injection h with h; subst h
          exact CdataStep.abstract_flags (by intro k r hk; rw [hs] at hk; cases hk) _
      · cases h
    · rename_i k
      rcases ite_ok h with ⟨_, h⟩ | ⟨_, h⟩
      · cases h
      · injection h with h; subst h
        exact ⟨rfl, rfl, id, Or.inr (Or.inl ⟨k, _, rest, hs, rfl, rfl, (hkey k rest hs).congr rfl rfl rfl rfl rfl, rfl, rfl⟩)⟩
    · rename_i a b
      rcases ite_ok h with ⟨_, h⟩ | ⟨_, h⟩
      · cases h
      · injection h with h; subst h
        exact ⟨rfl, rfl, id, Or.inr (Or.inr ⟨a, b, _, _, rest, hs, rfl⟩)⟩

theorem markExample_step {st st' : PSt} (hkey : ∀ k rest, st.stack = .key k :: rest → KeyShape k)
    (h : markExample st = .ok st') : CdataStep st st' := by
  unfold markExample at h
  split at h
  · cases h
  · rename_i f rest hs
    dsimp only at h
    split at h
    · rcases ite_ok h with ⟨_, h⟩ | ⟨_, h⟩
      · cases h
      · injection h with h; subst h
        exact CdataStep.top_flags (by intro k r hk; rw [hs] at hk; cases hk) _ rfl
    · split at h
      · rcases ite_ok h with ⟨_, h⟩ | ⟨_, h⟩
        · cases h
        · injection h with h; subst h
          exact CdataStep.updType_flags (by intro k r hk; rw [hs] at hk; cases hk) _ _ (fun _ => rfl)
      · cases h
    · cases h
    · rename_i k
      rcases ite_ok h with ⟨_, h⟩ | ⟨_, h⟩
      · cases h
      · injection h with h; subst h
        exact ⟨rfl, rfl, id, Or.inr (Or.inl ⟨k, _, rest, hs, rfl, rfl, (hkey k rest hs).congr rfl rfl rfl rfl rfl, rfl, rfl⟩)⟩
    · rename_i a b
      rcases ite_ok h with ⟨_, h⟩ | ⟨_, h⟩
      · cases h
      · injection h with h; subst h
        exact ⟨rfl, rfl, id, Or.inr (Or.inr ⟨a, b, _, _, rest, hs, rfl⟩)⟩

/-- the effect of any character-data element -/
theorem charactersTag_step {c : Bool} {tag : Str} {attrs : Attrs} {data : Str} {st st' : PSt}
    (hkey : ∀ k rest, st.stack = .key k :: rest → KeyShape k)
    (h : charactersTag c tag attrs data st = .ok st') : CdataStep st st' := by
  unfold charactersTag at h
  rcases ite_ok h with ⟨_, h⟩ | ⟨_, h⟩
  · split at h
    · rename_i k rest hs
      rcases ite_ok h with ⟨_, h⟩ | ⟨hmin, h⟩
      · cases h
      · rw [bind_ok] at h
        obtain ⟨k', hd, h⟩ := h
        simp only [pure, Except.pure, Except.ok.injEq] at h
        subst h
        have hmin' : k.minOccurs = 0 := by simpa using hmin
        obtain ⟨hs', hsame, _⟩ := addDefault_shape k k' data _ (hkey k rest hs) hmin' hd
        exact ⟨rfl, rfl, id, Or.inr (Or.inl ⟨k, k', rest, hs, rfl, rfl, hs', hsame.name, hsame.attr⟩)⟩
    · cases h
    · cases h
  rcases ite_ok h with ⟨_, h⟩ | ⟨_, h⟩
  · exact markDesc_step hkey h
  rcases ite_ok h with ⟨_, h⟩ | ⟨_, h⟩
  · exact markExample_step hkey h
  rcases ite_ok h with ⟨_, h⟩ | ⟨_, h⟩
  · injection h with h; subst h; exact CdataStep.refl _
  · cases h

theorem cdataTags_cases {t : Str} (h : Gen.cdataTags.contains t = true) :
    t = "description".toList ∨ t = "metadefault".toList ∨ t = "example".toList ∨ t = "default".toList := by
  simp only [Gen.cdataTags, List.contains_iff_mem, List.mem_cons, List.not_mem_nil, or_false] at h
  exact h

theorem charactersTag_ni {c : Bool} {tag : Str} {attrs : Attrs} {data : Str} {st : PSt}
    (hcd : Gen.cdataTags.contains tag = true)
    (hdef : tag = "default".toList → ∃ k rest, st.stack = .key k :: rest ∧ KeyShape k)
    (hdesc : tag = "description".toList → DescOK c st)
    (hex : tag = "example".toList → ExOK st) : NIx P (charactersTag c tag attrs data st) := by
  unfold charactersTag
  refine NIx.ite (fun ht => ?_) (fun ht1 => ?_)
  · obtain ⟨k, rest, hs, hk⟩ := hdef (by simpa using ht)
    rw [hs]
    dsimp only
    ni_steps [exact addDefault_ni hk.dfltOK _ _]
  refine NIx.ite (fun ht => markDesc_ni (hdesc (by simpa using ht))) (fun ht2 => ?_)
  refine NIx.ite (fun ht => markExample_ni (hex (by simpa using ht))) (fun ht3 => ?_)
  refine NIx.ite (fun _ => NIx.ok _) (fun ht4 => ?_)
  exfalso
  rcases cdataTags_cases hcd with h | h | h | h
  · exact ht2 (by simp [h])
  · exact ht4 (by simp [h])
  · exact ht3 (by simp [h])
  · exact ht1 (by simp [h])

/-- inside a character-data element no element passes the nesting check -/
theorem collectText_ni {parent : Str} (hp : ∀ t, nestingCheck parent t ≠ .ok ()) :
    ∀ l : List Node, NIx P (collectText parent l)
  | [] => by unfold collectText; exact NIx.ok _
  | .text s :: r => by unfold collectText; exact NIx.map (collectText_ni hp r)
  | .elem t a c :: r => by
    unfold collectText
    split
    · rename_i e he
      refine ⟨fun e' h => ?_⟩
      injection h with h
      subst h
      unfold nestingCheck at he
      split at he
      · cases he
      · split at he <;> cases he
    · rename_i u he
      exact absurd he (hp t)

end ZCV.Elab
