import ZCV.Lemmas.Datatypes2Rx
import ZCV.Lemmas.Datatypes
/-!
The live `ipaddr-or-hostname` pattern, analysed alternative by alternative on the capture-free matcher `dt2mr`:
the dotted quad (membership reasoning, the pattern is star-free and anchored), the IPv6 superset and the host name
(first-match reasoning over the stops of a greedy class repetition).
-/
namespace ZCV.DT
open ZCV ZCV.Rx

/-! ## membership in `dt2mr` for the star-free constructs -/

theorem dt2_mem_cls (w f : Nat) (k : Cls) (s r : Str) :
    r ∈ dt2mr w (.cls k) f s ↔ ∃ c, k.test c = true ∧ s = c :: r := by
  cases s with
  | nil => simp [dt2mr]
  | cons c t =>
    simp only [dt2mr]
    by_cases hc : k.test c
    · simp only [hc, ↓reduceIte, List.mem_singleton, List.cons.injEq]
      constructor
      · rintro rfl; exact ⟨c, hc, rfl, rfl⟩
      · rintro ⟨d, _, rfl, rfl⟩; rfl
    · simp only [hc, Bool.false_eq_true, ↓reduceIte, List.not_mem_nil, List.cons.injEq, false_iff]
      rintro ⟨d, hd, rfl, rfl⟩; exact hc hd

theorem dt2_mem_seq (w f : Nat) (a b : RE) (s r : Str) :
    r ∈ dt2mr w (.seq a b) f s ↔ ∃ x, x ∈ dt2mr w a f s ∧ r ∈ dt2mr w b f x := by
  rw [dt2mr, List.mem_flatMap]

theorem dt2_mem_alt (w f : Nat) (a b : RE) (s r : Str) :
    r ∈ dt2mr w (.alt a b) f s ↔ r ∈ dt2mr w a f s ∨ r ∈ dt2mr w b f s := by
  rw [dt2mr, List.mem_append]

theorem dt2_mem_opt (w f : Nat) (a : RE) (s r : Str) :
    r ∈ dt2mr w (.opt a) f s ↔ r ∈ dt2mr w a f s ∨ r = s := by
  rw [dt2mr, List.mem_append, List.mem_singleton]

theorem dt2_mem_cap (w f i : Nat) (a : RE) (s r : Str) :
    r ∈ dt2mr w (.cap i a) f s ↔ r ∈ dt2mr w a f s := by
  rw [dt2mr]

theorem dt2_mem_bol (w f : Nat) (s r : Str) : r ∈ dt2mr w .bol f s ↔ r = s ∧ s.length = w := by
  rw [dt2mr]
  by_cases h : s.length = w
  · simp [h]
  · simp [h]

theorem dt2_mem_eol (w f : Nat) (s r : Str) : r ∈ dt2mr w .eol f s ↔ r = s ∧ (s = [] ∨ s = ['\n']) := by
  rw [dt2mr]
  by_cases h : (s = [] ∨ s = ['\n'])
  · simp [h]
  · simp [h]

/-! ## the pattern, named piece by piece -/

def dt2D : Cls := ⟨false, [.digit]⟩
def dt2Z1 : Cls := ⟨false, [.range 48 49]⟩
def dt2C2 : Cls := ⟨false, [.range 50 50]⟩
def dt2R04 : Cls := ⟨false, [.range 48 52]⟩
def dt2C5 : Cls := ⟨false, [.range 53 53]⟩
def dt2R05 : Cls := ⟨false, [.range 48 53]⟩
def dt2V : Cls := ⟨false, [.range 46 46, .range 48 58, .range 65 70, .range 97 102]⟩
def dt2Colon : Cls := ⟨false, [.range 58 58]⟩
def dt2H1 : Cls := ⟨false, [.range 65 90, .range 95 95, .range 97 122]⟩
def dt2H2 : Cls := ⟨false, [.range 45 46, .range 48 57, .range 65 90, .range 95 95, .range 97 122]⟩
def dt2H3 : Cls := ⟨false, [.range 45 45, .range 48 57, .range 65 90, .range 95 95, .range 97 122]⟩

/-- `\d|[01]?\d\d|2[0-4]\d|25[0-5]` -/
def dt2OctRE : RE :=
  .alt (.cls dt2D) (.alt (.seq (.opt (.cls dt2Z1)) (.seq (.cls dt2D) (.cls dt2D)))
    (.alt (.seq (.cls dt2C2) (.seq (.cls dt2R04) (.cls dt2D))) (.seq (.cls dt2C2) (.seq (.cls dt2C5) (.cls dt2R05)))))

/-- `(^(oct)\.(oct)\.(oct)\.(oct)$)` -/
def dt2QuadRE : RE :=
  .cap 1 (.seq .bol (.seq (.cap 2 dt2OctRE) (.seq (.cls dotK) (.seq (.cap 3 dt2OctRE) (.seq (.cls dotK)
    (.seq (.cap 4 dt2OctRE) (.seq (.cls dotK) (.seq (.cap 5 dt2OctRE) .eol))))))))

/-- `([0-9A-Fa-f:.]+:[0-9A-Fa-f:.]*)` -/
def dt2V6RE : RE :=
  .cap 6 (.seq (.seq (.cls dt2V) (.star (.cls dt2V))) (.seq (.cls dt2Colon) (.star (.cls dt2V))))

/-- `([A-Za-z_][-A-Za-z0-9_.]*[-A-Za-z0-9_])` -/
def dt2HostRE : RE := .cap 7 (.seq (.cls dt2H1) (.seq (.star (.cls dt2H2)) (.cls dt2H3)))

theorem dt2_ipaddrRx_shape : Gen.ipaddrRx = .alt dt2QuadRE (.alt dt2V6RE dt2HostRE) := rfl

theorem dt2D_test (c : Char) : dt2D.test c = pyDigit c := by
  simp [dt2D, Cls.test, Item.test]
theorem dt2Z1_test (c : Char) : dt2Z1.test c = (c == '0' || c == '1') := by unfold dt2Z1; cls_arith
theorem dt2C2_test (c : Char) : dt2C2.test c = (c == '2') := by unfold dt2C2; cls_arith
theorem dt2R04_test (c : Char) : dt2R04.test c = inRange '0' '4' c := by unfold dt2R04; cls_arith
theorem dt2C5_test (c : Char) : dt2C5.test c = (c == '5') := by unfold dt2C5; cls_arith
theorem dt2R05_test (c : Char) : dt2R05.test c = inRange '0' '5' c := by unfold dt2R05; cls_arith
theorem dt2V_test (c : Char) : dt2V.test c = DTSpec.isV6Char c := by
  unfold dt2V DTSpec.isV6Char; cls_arith
theorem dt2Colon_test (c : Char) : dt2Colon.test c = (c == ':') := by unfold dt2Colon; cls_arith
theorem dt2H1_test (c : Char) : dt2H1.test c = (isAsciiLetter c || c == '_') := by unfold dt2H1; cls_arith
theorem dt2H2_test (c : Char) : dt2H2.test c = (DTSpec.isHostChar c || c == '.') := by
  unfold dt2H2 DTSpec.isHostChar; cls_arith
theorem dt2H3_test (c : Char) : dt2H3.test c = DTSpec.isHostChar c := by
  unfold dt2H3 DTSpec.isHostChar; cls_arith

/-! ## one octet -/

theorem dt2_mem_oct (w f : Nat) (s r : Str) :
    r ∈ dt2mr w dt2OctRE f s ↔ ∃ o, DTSpec.isOctet o = true ∧ s = o ++ r := by
  simp only [dt2OctRE, dt2_mem_alt, dt2_mem_seq, dt2_mem_opt, dt2_mem_cls, dt2D_test, dt2Z1_test, dt2C2_test,
    dt2R04_test, dt2C5_test, dt2R05_test]
  constructor
  · rintro (⟨a, ha, rfl⟩ | ⟨x, (⟨z, hz, rfl⟩ | rfl), y, ⟨a, ha, rfl⟩, b, hb, rfl⟩ |
      ⟨x, ⟨z, hz, rfl⟩, y, ⟨a, ha, rfl⟩, b, hb, rfl⟩ | ⟨x, ⟨z, hz, rfl⟩, y, ⟨a, ha, rfl⟩, b, hb, rfl⟩)
    · exact ⟨[a], by simp [DTSpec.isOctet, ha], rfl⟩
    · exact ⟨[z, a, b], by simp only [DTSpec.isOctet, hz, ha, hb]; simp, rfl⟩
    · exact ⟨[a, b], by simp [DTSpec.isOctet, ha, hb], rfl⟩
    · exact ⟨[z, a, b], by simp only [DTSpec.isOctet, hz, ha, hb]; simp, rfl⟩
    · exact ⟨[z, a, b], by simp only [DTSpec.isOctet, hz, ha, hb]; simp, rfl⟩
  · rintro ⟨o, ho, rfl⟩
    match o, ho with
    | [a], ho => exact Or.inl ⟨a, by simpa [DTSpec.isOctet] using ho, rfl⟩
    | [a, b], ho =>
      simp only [DTSpec.isOctet, Bool.and_eq_true] at ho
      exact Or.inr (Or.inl ⟨_, Or.inr rfl, _, ⟨a, ho.1, rfl⟩, b, ho.2, rfl⟩)
    | [a, b, c], ho =>
      simp only [DTSpec.isOctet, Bool.or_eq_true, Bool.and_eq_true] at ho
      rcases ho with (⟨⟨h1, h2⟩, h3⟩ | ⟨⟨h1, h2⟩, h3⟩) | ⟨⟨h1, h2⟩, h3⟩
      · exact Or.inr (Or.inl ⟨_, Or.inl ⟨a, by simpa using h1, rfl⟩, _, ⟨b, h2, rfl⟩, c, h3, rfl⟩)
      · exact Or.inr (Or.inr (Or.inl ⟨_, ⟨a, h1, rfl⟩, _, ⟨b, h2, rfl⟩, c, h3, rfl⟩))
      · exact Or.inr (Or.inr (Or.inr ⟨_, ⟨a, h1, rfl⟩, _, ⟨b, h2, rfl⟩, c, h3, rfl⟩))
    | [], ho => simp [DTSpec.isOctet] at ho
    | _ :: _ :: _ :: _ :: _, ho => simp [DTSpec.isOctet] at ho

/-! ## the anchored dotted quad -/

/-- four octets separated by periods, then `r` -/
def dt2QuadThen (s r : Str) : Prop :=
  ∃ o1 o2 o3 o4, DTSpec.isOctet o1 = true ∧ DTSpec.isOctet o2 = true ∧ DTSpec.isOctet o3 = true ∧
    DTSpec.isOctet o4 = true ∧ s = o1 ++ '.' :: (o2 ++ '.' :: (o3 ++ '.' :: (o4 ++ r)))

theorem dt2_mem_quad (w f : Nat) (s r : Str) :
    r ∈ dt2mr w dt2QuadRE f s ↔ s.length = w ∧ (r = [] ∨ r = ['\n']) ∧ dt2QuadThen s r := by
  simp only [dt2QuadRE, dt2_mem_cap, dt2_mem_seq, dt2_mem_bol, dt2_mem_eol, dt2_mem_oct, dt2_mem_cls, dotK_test,
    dt2QuadThen]
  constructor
  · rintro ⟨x, ⟨rfl, hw⟩, x1, ⟨o1, h1, rfl⟩, x2, ⟨c1, hc1, rfl⟩, x3, ⟨o2, h2, rfl⟩, x4, ⟨c2, hc2, rfl⟩,
      x5, ⟨o3, h3, rfl⟩, x6, ⟨c3, hc3, rfl⟩, x7, ⟨o4, h4, rfl⟩, rfl, hr⟩
    simp only [beq_iff_eq] at hc1 hc2 hc3
    subst hc1 hc2 hc3
    exact ⟨hw, hr, o1, o2, o3, o4, h1, h2, h3, h4, rfl⟩
  · rintro ⟨hw, hr, o1, o2, o3, o4, h1, h2, h3, h4, rfl⟩
    exact ⟨_, ⟨rfl, hw⟩, _, ⟨o1, h1, rfl⟩, _, ⟨'.', rfl, rfl⟩, _, ⟨o2, h2, rfl⟩, _, ⟨'.', rfl, rfl⟩,
      _, ⟨o3, h3, rfl⟩, _, ⟨'.', rfl, rfl⟩, _, ⟨o4, h4, rfl⟩, rfl, hr⟩

/-! ## `split('.')` -/

/-- characters an octet can contain -/
def dt2OctCh (c : Char) : Bool := pyDigit c || isAsciiDigit c

theorem dt2_isAsciiDigit_of_eq (c d : Char) (hd : isAsciiDigit d = true) (h : (c == d) = true) :
    isAsciiDigit c = true := by
  simp only [beq_iff_eq] at h; subst h; exact hd

theorem dt2_isAsciiDigit_of_range (lo hi c : Char) (h1 : 48 ≤ lo.toNat) (h2 : hi.toNat ≤ 57)
    (h : inRange lo hi c = true) : isAsciiDigit c = true := by
  simp only [isAsciiDigit, inRange, Bool.and_eq_true, decide_eq_true_eq, Char.reduceToNat] at h ⊢
  omega

theorem dt2_octet_chars (o : Str) (h : DTSpec.isOctet o = true) : ∀ c ∈ o, dt2OctCh c = true := by
  match o, h with
  | [a], h => simp only [DTSpec.isOctet] at h; simp [dt2OctCh, h]
  | [a, b], h =>
    simp only [DTSpec.isOctet, Bool.and_eq_true] at h
    simp [dt2OctCh, h.1, h.2]
  | [a, b, c], h =>
    simp only [DTSpec.isOctet, Bool.or_eq_true, Bool.and_eq_true] at h
    have e0 : isAsciiDigit '0' = true := by decide
    have e1 : isAsciiDigit '1' = true := by decide
    have e2 : isAsciiDigit '2' = true := by decide
    have e5 : isAsciiDigit '5' = true := by decide
    rcases h with (⟨⟨h1, h2⟩, h3⟩ | ⟨⟨h1, h2⟩, h3⟩) | ⟨⟨h1, h2⟩, h3⟩
    · have ha : isAsciiDigit a = true := by
        rcases h1 with h1 | h1
        · exact dt2_isAsciiDigit_of_eq _ _ e0 h1
        · exact dt2_isAsciiDigit_of_eq _ _ e1 h1
      simp [dt2OctCh, ha, h2, h3]
    · have ha := dt2_isAsciiDigit_of_eq _ _ e2 h1
      have hb := dt2_isAsciiDigit_of_range '0' '4' b (by decide) (by decide) h2
      simp [dt2OctCh, ha, hb, h3]
    · have ha := dt2_isAsciiDigit_of_eq _ _ e2 h1
      have hb := dt2_isAsciiDigit_of_eq _ _ e5 h2
      have hc := dt2_isAsciiDigit_of_range '0' '5' c (by decide) (by decide) h3
      simp [dt2OctCh, ha, hb, hc]
  | [], h => simp [DTSpec.isOctet] at h
  | _ :: _ :: _ :: _ :: _, h => simp [DTSpec.isOctet] at h

theorem dt2_octCh_dot : dt2OctCh '.' = false := by decide
theorem dt2_octCh_nl : dt2OctCh '\n' = false := by decide
theorem dt2_octCh_colon : dt2OctCh ':' = false := by decide

theorem dt2_splitDots_ne_nil (s : Str) : DTSpec.splitDots s ≠ [] := by
  cases s with
  | nil => simp [DTSpec.splitDots]
  | cons c t =>
    simp only [DTSpec.splitDots]
    split
    · simp
    · split <;> simp

theorem dt2_splitDots_nodot (o : Str) (h : '.' ∉ o) : DTSpec.splitDots o = [o] := by
  induction o with
  | nil => rfl
  | cons c t ih =>
    simp only [List.mem_cons, not_or] at h
    have hc : (c == '.') = false := by simpa using fun e => h.1 e.symm
    simp [DTSpec.splitDots, hc, ih h.2]

theorem dt2_splitDots_append (o rest : Str) (h : '.' ∉ o) :
    DTSpec.splitDots (o ++ '.' :: rest) = o :: DTSpec.splitDots rest := by
  induction o with
  | nil => simp [DTSpec.splitDots]
  | cons c t ih =>
    simp only [List.mem_cons, not_or] at h
    have hc : (c == '.') = false := by simpa using fun e => h.1 e.symm
    simp [DTSpec.splitDots, hc, ih h.2]

/-- `'.'.join(parts)` -/
def dt2JoinDots : List Str → Str
  | [] => []
  | [w] => w
  | w :: w' :: ws => w ++ '.' :: dt2JoinDots (w' :: ws)

theorem dt2_join_split (s : Str) : dt2JoinDots (DTSpec.splitDots s) = s := by
  induction s with
  | nil => rfl
  | cons c t ih =>
    simp only [DTSpec.splitDots]
    by_cases hc : c = '.'
    · subst hc
      simp only [beq_self_eq_true, ↓reduceIte]
      cases hs : DTSpec.splitDots t with
      | nil => exact absurd hs (dt2_splitDots_ne_nil t)
      | cons w ws => rw [hs] at ih; simp [dt2JoinDots, ih]
    · have hc' : (c == '.') = false := by simpa using hc
      simp only [hc', Bool.false_eq_true, ↓reduceIte]
      cases hs : DTSpec.splitDots t with
      | nil => exact absurd hs (dt2_splitDots_ne_nil t)
      | cons w ws =>
        rw [hs] at ih
        cases ws with
        | nil => simp only [dt2JoinDots] at ih ⊢; rw [ih]
        | cons w' ws' => simp only [dt2JoinDots] at ih ⊢; rw [← ih]; rfl

theorem dt2_octet_nodot (o : Str) (h : DTSpec.isOctet o = true) : '.' ∉ o := by
  intro hm
  have := dt2_octet_chars o h '.' hm
  rw [dt2_octCh_dot] at this; cases this

/-- the documented shape, as a decomposition of the text -/
theorem dt2_isDottedQuad_iff (s : Str) : DTSpec.isDottedQuad s = true ↔ dt2QuadThen s [] := by
  constructor
  · intro h
    simp only [DTSpec.isDottedQuad, Bool.and_eq_true, beq_iff_eq, List.all_eq_true] at h
    obtain ⟨hl, ha⟩ := h
    have hj := dt2_join_split s
    match hs : DTSpec.splitDots s, hl with
    | [o1, o2, o3, o4], _ =>
      rw [hs] at ha hj
      refine ⟨o1, o2, o3, o4, ha o1 (by simp), ha o2 (by simp), ha o3 (by simp), ha o4 (by simp), ?_⟩
      rw [← hj]; simp [dt2JoinDots]
  · rintro ⟨o1, o2, o3, o4, h1, h2, h3, h4, rfl⟩
    have e : DTSpec.splitDots (o1 ++ '.' :: (o2 ++ '.' :: (o3 ++ '.' :: (o4 ++ [])))) = [o1, o2, o3, o4] := by
      rw [dt2_splitDots_append _ _ (dt2_octet_nodot o1 h1), dt2_splitDots_append _ _ (dt2_octet_nodot o2 h2),
        dt2_splitDots_append _ _ (dt2_octet_nodot o3 h3), List.append_nil,
        dt2_splitDots_nodot _ (dt2_octet_nodot o4 h4)]
    rw [List.append_nil] at e ⊢
    unfold DTSpec.isDottedQuad
    simp only [e]
    simp [h1, h2, h3, h4]

/-- characters of a dotted quad -/
theorem dt2_quadThen_chars (s r : Str) (h : dt2QuadThen s r) :
    ∃ q, s = q ++ r ∧ ∀ c ∈ q, dt2OctCh c = true ∨ c = '.' := by
  obtain ⟨o1, o2, o3, o4, h1, h2, h3, h4, rfl⟩ := h
  refine ⟨o1 ++ '.' :: (o2 ++ '.' :: (o3 ++ '.' :: o4)), by simp, ?_⟩
  intro c hc
  simp only [List.mem_append, List.mem_cons] at hc
  rcases hc with hc | rfl | hc | rfl | hc | rfl | hc
  · exact Or.inl (dt2_octet_chars o1 h1 c hc)
  · exact Or.inr rfl
  · exact Or.inl (dt2_octet_chars o2 h2 c hc)
  · exact Or.inr rfl
  · exact Or.inl (dt2_octet_chars o3 h3 c hc)
  · exact Or.inr rfl
  · exact Or.inl (dt2_octet_chars o4 h4 c hc)

/-! ## greedy class repetition followed by one more character: first-match lemmas over `runs` -/

theorem dt2_mr_star_cls (w : Nat) (k : Cls) (f : Nat) (s : Str) (h : s.length ≤ f) :
    dt2mr w (.star (.cls k)) f s = runs k.test s := by
  have := dt2_m_fst w (.star (.cls k)) f (s, []) []
  rw [← this, star_cls_all w k [] f s h, List.map_map]
  exact List.map_id' _

theorem dt2_runs_head (p : Char → Bool) (s : Str) : (runs p s).head? = some (s.dropWhile p) := by
  obtain ⟨rest, h, _⟩ := runs_spec p s
  rw [h]; rfl

/-- what `:[k]*` leaves when started at `r` -/
def dt2G2 (p : Char → Bool) (r : Str) : List Str :=
  match r with
  | d :: r' => if d == ':' then runs p r' else []
  | [] => []

/-- what one more character of class `q` leaves when started at `r` -/
def dt2G3 (q : Char → Bool) (r : Str) : List Str :=
  match r with
  | d :: r' => if q d then [r'] else []
  | [] => []

theorem dt2_head_nil_append {α} (l l' : List α) (h : l.head? = none) : (l ++ l').head? = l'.head? := by
  cases l with
  | nil => rfl
  | cons a as => simp at h

/-- `[k]*:[k]*` with `:` in `k`: backtracks to the LAST colon of the maximal run, then takes the rest of the run -/
theorem dt2_runs_colon (p : Char → Bool) (hp : p ':' = true) (t : Str) :
    ((runs p t).flatMap (dt2G2 p)).head? =
      if ':' ∈ t.takeWhile p then some (t.dropWhile p) else none := by
  induction t with
  | nil => simp [runs, dt2G2]
  | cons c t ih =>
    by_cases hc : p c = true
    · simp only [runs, hc, ↓reduceIte, List.flatMap_append, List.flatMap_cons, List.flatMap_nil, List.append_nil,
        List.takeWhile_cons, List.dropWhile_cons, List.mem_cons]
      by_cases hm : ':' ∈ t.takeWhile p
      · rw [if_pos hm] at ih
        rw [if_pos (Or.inr hm)]
        exact head_append ih
      · rw [if_neg hm] at ih
        rw [dt2_head_nil_append _ _ ih]
        by_cases hcc : c = ':'
        · subst hcc
          simp [dt2G2, dt2_runs_head]
        · have h1 : (c == ':') = false := by simpa using hcc
          have h2 : ¬ (':' = c ∨ ':' ∈ t.takeWhile p) := by
            rintro (e | e)
            · exact hcc e.symm
            · exact hm e
          simp [dt2G2, h1, h2]
    · have hcc : (c == ':') = false := by
        cases h : c == ':' with
        | false => rfl
        | true => simp only [beq_iff_eq] at h; subst h; exact absurd hp hc
      simp [runs, hc, dt2G2, hcc]

/-- `[k]*[q]` with `q ⊆ k`: consumes everything exactly when the text is a non-empty `k`-run ending in `q` -/
theorem dt2_runs_last (p q : Char → Bool) (hq : ∀ c, q c = true → p c = true) (t : Str) :
    ((runs p t).flatMap (dt2G3 q)).head? = some [] ↔
      (t.all p = true ∧ ∃ l, t.getLast? = some l ∧ q l = true) := by
  induction t with
  | nil => simp [runs, dt2G3]
  | cons c t ih =>
    by_cases hc : p c = true
    · simp only [runs, hc, ↓reduceIte, List.flatMap_append, List.flatMap_cons, List.flatMap_nil, List.append_nil,
        List.all_cons, Bool.true_and]
      cases t with
      | nil =>
        by_cases hqc : q c = true
        · simp [runs, dt2G3, hqc]
        · simp [runs, dt2G3, hqc]
      | cons d t' =>
        rw [List.getLast?_cons_cons]
        cases hF : (List.flatMap (dt2G3 q) (runs p (d :: t'))).head? with
        | none =>
          rw [dt2_head_nil_append _ _ hF]
          rw [hF] at ih
          have hno : ¬ some (d :: t') = some ([] : Str) := by simp
          constructor
          · intro h
            exfalso
            by_cases hqc : q c = true
            · simp [dt2G3, hqc] at h
            · simp [dt2G3, hqc] at h
          · intro h; exact absurd (ih.mpr h) (by simp)
        | some x =>
          rw [head_append hF]
          rw [hF] at ih
          exact ih
    · have hqc : ¬ q c = true := fun h => hc (hq c h)
      simp [runs, hc, dt2G3, hqc]

/-! ## the two unanchored alternatives -/

theorem dt2_flatMap_congr {α β} (l : List α) (f g : α → List β) (h : ∀ a ∈ l, f a = g a) :
    l.flatMap f = l.flatMap g := by
  induction l with
  | nil => rfl
  | cons a l ih =>
    rw [List.flatMap_cons, List.flatMap_cons, h a (by simp), ih (fun b hb => h b (List.mem_cons_of_mem _ hb))]

theorem dt2_mr_v6 (w f : Nat) (s : Str) (hf : s.length ≤ f) :
    dt2mr w dt2V6RE f s =
      match s with
      | c :: t => if dt2V.test c then (runs dt2V.test t).flatMap (dt2G2 dt2V.test) else []
      | [] => [] := by
  cases s with
  | nil => simp [dt2V6RE, dt2mr]
  | cons c t =>
    have ht : t.length ≤ f := by simp at hf; omega
    simp only [dt2V6RE]
    rw [dt2mr, dt2mr, dt2mr, dt2mr]
    by_cases hc : dt2V.test c = true
    · simp only [hc, ↓reduceIte, List.flatMap_cons, List.flatMap_nil, List.append_nil]
      rw [dt2_mr_star_cls w dt2V f t ht]
      apply dt2_flatMap_congr
      intro r hr
      have hrl := runs_length dt2V.test t r hr
      rw [dt2mr]
      cases r with
      | nil => simp [dt2mr, dt2G2]
      | cons d r' =>
        simp only [dt2mr, dt2Colon_test, dt2G2]
        by_cases hd : (d == ':') = true
        · simp only [hd, ↓reduceIte, List.flatMap_cons, List.flatMap_nil, List.append_nil]
          exact dt2_mr_star_cls w dt2V f r' (by simp at hrl; omega)
        · simp [hd]
    · simp [hc]

theorem dt2_mr_host (w f : Nat) (s : Str) (hf : s.length ≤ f) :
    dt2mr w dt2HostRE f s =
      match s with
      | c :: t => if dt2H1.test c then (runs dt2H2.test t).flatMap (dt2G3 dt2H3.test) else []
      | [] => [] := by
  cases s with
  | nil => simp [dt2HostRE, dt2mr]
  | cons c t =>
    have ht : t.length ≤ f := by simp at hf; omega
    simp only [dt2HostRE]
    rw [dt2mr, dt2mr, dt2mr]
    by_cases hc : dt2H1.test c = true
    · simp only [hc, ↓reduceIte, List.flatMap_cons, List.flatMap_nil, List.append_nil]
      rw [dt2mr, dt2_mr_star_cls w dt2H2 f t ht]
      apply dt2_flatMap_congr
      intro r hr
      cases r with
      | nil => simp [dt2mr, dt2G3]
      | cons d r' => simp only [dt2mr, dt2G3]
    · simp [hc]

/-- "the first match consumed everything" -/
def dt2Whole (l : List Str) : Bool :=
  match l.head? with
  | some x => x == []
  | none => false

theorem dt2Whole_iff (l : List Str) : dt2Whole l = true ↔ l.head? = some [] := by
  unfold dt2Whole
  cases l.head? with
  | none => simp
  | some x => simp

/-- the IPv6 superset alternative matches everything: the text is over `[0-9A-Fa-f:.]` and has a colon after its
    first character -/
def dt2V6Shape (s : Str) : Bool :=
  match s with
  | c :: t => DTSpec.isV6Char c && t.all DTSpec.isV6Char && t.contains ':'
  | [] => false

theorem dt2_takeWhile_all {α} (p : α → Bool) (t : List α) (h : t.all p = true) : t.takeWhile p = t := by
  induction t with
  | nil => rfl
  | cons c t ih =>
    simp only [List.all_cons, Bool.and_eq_true] at h
    simp [h.1, ih h.2]

theorem dt2_mem_takeWhile {α} (p : α → Bool) (t : List α) (a : α) (h : a ∈ t.takeWhile p) : a ∈ t :=
  (List.takeWhile_sublist p).subset h

theorem dt2_isV6Char_colon : DTSpec.isV6Char ':' = true := by decide
theorem dt2_isHostChar_colon : (DTSpec.isHostChar ':' || ':' == '.') = false := by decide

theorem dt2_hostname_iff (c : Char) (t : Str) :
    DTSpec.isHostname (c :: t) = true ↔
      dt2H1.test c = true ∧ t.all dt2H2.test = true ∧ ∃ l, t.getLast? = some l ∧ dt2H3.test l = true := by
  simp only [DTSpec.isHostname, dt2H1_test, Bool.and_eq_true]
  apply and_congr_right
  intro _
  cases hl : t.getLast? with
  | none => simp
  | some l =>
    obtain ⟨ys, hys⟩ := List.getLast?_eq_some_iff.mp hl
    have ht : t.dropLast ++ [l] = t := by rw [hys, List.dropLast_concat]
    rw [← List.dropLast_eq_take]
    simp only [Option.some.injEq, exists_eq_left', dt2H3_test, Bool.and_eq_true]
    conv => rhs; rw [← ht, List.all_append]
    rw [show dt2H2.test = (fun d => DTSpec.isHostChar d || d == '.') from funext dt2H2_test]
    simp only [List.all_cons, List.all_nil, Bool.and_true, Bool.and_eq_true, Bool.or_eq_true]
    constructor
    · rintro ⟨h1, h2⟩; exact ⟨⟨h2, Or.inl h1⟩, h1⟩
    · rintro ⟨⟨h2, _⟩, h1⟩; exact ⟨h1, h2⟩

theorem dt2_hostname_chars (s : Str) (h : DTSpec.isHostname s = true) : ∀ c ∈ s, dt2H2.test c = true := by
  cases s with
  | nil => simp
  | cons c t =>
    rw [dt2_hostname_iff] at h
    intro d hd
    simp only [List.mem_cons] at hd
    rcases hd with rfl | hd
    · have := h.1
      rw [dt2H1_test] at this
      rw [dt2H2_test]
      revert this
      simp only [DTSpec.isHostChar]
      cases isAsciiLetter d <;> cases (d == '_') <;> simp
    · exact List.all_eq_true.mp h.2.1 d hd

theorem dt2_v6shape_chars (s : Str) (h : dt2V6Shape s = true) : ∀ c ∈ s, DTSpec.isV6Char c = true := by
  cases s with
  | nil => simp
  | cons c t =>
    simp only [dt2V6Shape, Bool.and_eq_true] at h
    intro d hd
    simp only [List.mem_cons] at hd
    rcases hd with rfl | hd
    · exact h.1.1
    · exact List.all_eq_true.mp h.1.2 d hd

/-! ## the whole pattern -/

theorem dt2_host_whole (c : Char) (t : Str) :
    dt2Whole (if dt2H1.test c = true then (runs dt2H2.test t).flatMap (dt2G3 dt2H3.test) else []) =
      DTSpec.isHostname (c :: t) := by
  rw [Bool.eq_iff_iff, dt2Whole_iff, dt2_hostname_iff]
  by_cases hc : dt2H1.test c = true
  · rw [if_pos hc, dt2_runs_last dt2H2.test dt2H3.test (fun d hd => by
      rw [dt2H3_test] at hd; rw [dt2H2_test, hd]; rfl)]
    simp [hc]
  · rw [if_neg hc]; simp [hc]

theorem dt2_quad_chars (s : Str) (h : DTSpec.isDottedQuad s = true) : ∀ c ∈ s, dt2OctCh c = true ∨ c = '.' := by
  obtain ⟨q, hq, hc⟩ := dt2_quadThen_chars s [] ((dt2_isDottedQuad_iff s).mp h)
  rw [List.append_nil] at hq
  subst hq; exact hc

theorem dt2_v6_nl : DTSpec.isV6Char '\n' = false := by decide
theorem dt2_h2_nl : dt2H2.test '\n' = false := by decide
theorem dt2_h2_colon : dt2H2.test ':' = false := by decide

/-- a text ending in a newline has none of the three shapes -/
theorem dt2_no_shape_nl (q : Str) :
    (DTSpec.isDottedQuad (q ++ ['\n']) || dt2V6Shape (q ++ ['\n']) || DTSpec.isHostname (q ++ ['\n'])) = false := by
  have hm : '\n' ∈ q ++ ['\n'] := by simp
  cases h1 : DTSpec.isDottedQuad (q ++ ['\n']) with
  | true =>
    rcases dt2_quad_chars _ h1 _ hm with h | h
    · rw [dt2_octCh_nl] at h; cases h
    · cases h
  | false =>
    cases h2 : dt2V6Shape (q ++ ['\n']) with
    | true => have := dt2_v6shape_chars _ h2 _ hm; rw [dt2_v6_nl] at this; cases this
    | false =>
      cases h3 : DTSpec.isHostname (q ++ ['\n']) with
      | true => have := dt2_hostname_chars _ h3 _ hm; rw [dt2_h2_nl] at this; cases this
      | false => rfl

theorem dt2_hostname_no_colon (s : Str) (h : ':' ∈ s) : DTSpec.isHostname s = false := by
  cases h3 : DTSpec.isHostname s with
  | true => have := dt2_hostname_chars _ h3 _ h; rw [dt2_h2_colon] at this; cases this
  | false => rfl

theorem dt2_quad_no_colon (s : Str) (h : DTSpec.isDottedQuad s = true) : ':' ∉ s := by
  intro hm
  rcases dt2_quad_chars _ h _ hm with h | h
  · rw [dt2_octCh_colon] at h; cases h
  · cases h

/-- **the live pattern**: `rx.match(v)` consumes all of `v` exactly for the three documented shapes -/
theorem dt2_ipaddr_matches (s : Str) :
    matchesWhole Gen.ipaddrRx s = (DTSpec.isDottedQuad s || dt2V6Shape s || DTSpec.isHostname s) := by
  rw [dt2_matchesWhole_mr, dt2_ipaddrRx_shape, dt2mr, dt2mr]
  change dt2Whole _ = _
  cases hQ : dt2mr s.length dt2QuadRE s.length s with
  | cons x rest =>
    have hx : x ∈ dt2mr s.length dt2QuadRE s.length s := by rw [hQ]; simp
    obtain ⟨_, hr, hq⟩ := (dt2_mem_quad _ _ _ _).mp hx
    have hd : dt2Whole (x :: rest ++ (dt2mr s.length dt2V6RE s.length s ++ dt2mr s.length dt2HostRE s.length s)) = (x == []) := rfl
    rw [hd]
    rcases hr with rfl | rfl
    · rw [(dt2_isDottedQuad_iff s).mpr hq]; rfl
    · obtain ⟨q, rfl, _⟩ := dt2_quadThen_chars s _ hq
      rw [dt2_no_shape_nl]; rfl
  | nil =>
    have hnq : DTSpec.isDottedQuad s = false := by
      cases h : DTSpec.isDottedQuad s with
      | false => rfl
      | true =>
        have : [] ∈ dt2mr s.length dt2QuadRE s.length s :=
          (dt2_mem_quad _ _ _ _).mpr ⟨rfl, Or.inl rfl, (dt2_isDottedQuad_iff s).mp h⟩
        rw [hQ] at this; cases this
    rw [hnq, List.nil_append, Bool.false_or, dt2_mr_v6 _ _ _ (Nat.le_refl _), dt2_mr_host _ _ _ (Nat.le_refl _)]
    cases s with
    | nil => rfl
    | cons c t =>
      simp only
      by_cases hc : dt2V.test c = true
      · rw [if_pos hc]
        have hhead := dt2_runs_colon dt2V.test (by rw [dt2V_test]; exact dt2_isV6Char_colon) t
        by_cases hm : ':' ∈ t.takeWhile dt2V.test
        · rw [if_pos hm] at hhead
          have hw : dt2Whole ((runs dt2V.test t).flatMap (dt2G2 dt2V.test) ++
              (if dt2H1.test c = true then (runs dt2H2.test t).flatMap (dt2G3 dt2H3.test) else [])) =
              (t.dropWhile dt2V.test == []) := by
            unfold dt2Whole; rw [head_append hhead]
          rw [hw, dropWhile_nil_all]
          have hmt : ':' ∈ t := dt2_mem_takeWhile _ _ _ hm
          rw [dt2_hostname_no_colon (c :: t) (List.mem_cons_of_mem _ hmt), Bool.or_false]
          rw [dt2V_test] at hc
          rw [show dt2V.test = DTSpec.isV6Char from funext dt2V_test]
          simp [dt2V6Shape, hc, hmt]
        · rw [if_neg hm] at hhead
          have hnil : (runs dt2V.test t).flatMap (dt2G2 dt2V.test) = [] := by
            cases h : (runs dt2V.test t).flatMap (dt2G2 dt2V.test) with
            | nil => rfl
            | cons a as => rw [h] at hhead; cases hhead
          have hns : dt2V6Shape (c :: t) = false := by
            cases h : dt2V6Shape (c :: t) with
            | false => rfl
            | true =>
              simp only [dt2V6Shape, Bool.and_eq_true, List.contains_iff_mem] at h
              rw [show dt2V.test = DTSpec.isV6Char from funext dt2V_test, dt2_takeWhile_all _ _ h.1.2] at hm
              exact absurd h.2 hm
          rw [hnil, hns, List.nil_append, Bool.false_or]
          exact dt2_host_whole c t
      · have hns : dt2V6Shape (c :: t) = false := by
          rw [dt2V_test] at hc
          simp [dt2V6Shape, hc]
        rw [if_neg hc, hns, List.nil_append, Bool.false_or]
        exact dt2_host_whole c t

end ZCV.DT
