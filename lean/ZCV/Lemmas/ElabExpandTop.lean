import ZCV.Lemmas.ElabExpandFrozen
/-!
C11 (`extends` = written-out expansion), towards the global theorem: one child element of `<schema>` (other than
`<import>`) leaves stack and prefixes as they were, only extends the type table and never changes a concrete type that
is already there (`TopStep`); a `<sectiontype>` without `extends` adds a type whose children are what reading its child
elements on a fresh type produced (`NewType`).
-/
namespace ZCV.Elab
open ZCV ZCV.Cfg

structure TopStep (st st' : PSt) : Prop where
  stack : st'.stack = st.stack
  prefixes : st'.prefixes = st.prefixes
  grows : Grows st.es st'.es
  frozen : ∀ n, ConcSame n st.es st'.es

theorem TopStep.refl (st : PSt) : TopStep st st := ⟨rfl, rfl, Grows.refl _, fun _ => ConcSame.refl _ _⟩
theorem TopStep.trans {a b c : PSt} (h1 : TopStep a b) (h2 : TopStep b c) : TopStep a c :=
  ⟨h2.stack.trans h1.stack, h2.prefixes.trans h1.prefixes, h1.grows.trans h2.grows,
   fun n => (h1.frozen n).trans (h2.frozen n)⟩

/-- character data directly below `<schema>` -/
theorem schemaCdata_step {c : Bool} {tag : Str} {attrs : Attrs} {data : Str} {st st' : PSt} {r : List Frame}
    (hs : st.stack = .schema :: r) (h : charactersTag c tag attrs data st = .ok st') : TopStep st st' := by
  have key : st'.stack = st.stack ∧ st'.prefixes = st.prefixes ∧ st'.es.types = st.es.types := by
    unfold charactersTag at h
    rcases ite_ok h with ⟨_, h⟩ | ⟨_, h⟩
    · rw [hs] at h; cases h
    rcases ite_ok h with ⟨_, h⟩ | ⟨_, h⟩
    · unfold markDesc at h
      split at h
      · rename_i hnil; rw [hs] at hnil; cases hnil
      · rename_i f0 rest hs'
        rw [hs] at hs'
        injection hs' with h1 h2
        subst h1
        dsimp only at h
        rcases ite_ok h with ⟨_, h⟩ | ⟨_, h⟩
        · cases h
        · injection h with h; subst h; exact ⟨rfl, rfl, rfl⟩
    rcases ite_ok h with ⟨_, h⟩ | ⟨_, h⟩
    · unfold markExample at h
      split at h
      · cases h
      · rename_i f0 rest hs'
        rw [hs] at hs'
        injection hs' with h1 h2
        subst h1
        dsimp only at h
        rcases ite_ok h with ⟨_, h⟩ | ⟨_, h⟩
        · cases h
        · injection h with h; subst h; exact ⟨rfl, rfl, rfl⟩
    rcases ite_ok h with ⟨_, h⟩ | ⟨_, h⟩
    · injection h with h; subst h; exact ⟨rfl, rfl, rfl⟩
    · cases h
  exact ⟨key.1, key.2.1, Grows.of_types_eq key.2.2, fun n => ConcSame.of_types_eq key.2.2⟩

/-- `description` of an abstract type -/
theorem atypeCdata_step {c : Bool} {tag : Str} {attrs : Attrs} {data : Str} {st st' : PSt} {n : Str} {r : List Frame}
    (hs : st.stack = .atype n :: r) (h : charactersTag c tag attrs data st = .ok st') : TopStep st st' := by
  unfold charactersTag at h
  rcases ite_ok h with ⟨_, h⟩ | ⟨_, h⟩
  · rw [hs] at h; cases h
  rcases ite_ok h with ⟨_, h⟩ | ⟨_, h⟩
  · unfold markDesc at h
    split at h
    · rename_i hnil; rw [hs] at hnil; cases hnil
    · rename_i f0 rest hs'
      rw [hs] at hs'
      injection hs' with h1 h2
      subst h1
      dsimp only at h
      split at h
      · rcases ite_ok h with ⟨_, h⟩ | ⟨_, h⟩
        · cases h
        · injection h with h; subst h
          refine ⟨rfl, rfl, Grows.map _ _ ?_, fun m => concSame_map _ m _ ?_ ?_⟩
          · intro ⟨k, e⟩; dsimp only; split <;> rfl
          · intro ⟨k, e⟩; dsimp only; split <;> rfl
          · intro k t; dsimp only; split <;> rfl
      · cases h
  rcases ite_ok h with ⟨_, h⟩ | ⟨_, h⟩
  · unfold markExample at h
    split at h
    · cases h
    · rename_i f0 rest hs'
      rw [hs] at hs'
      injection hs' with h1 h2
      subst h1
      cases h
  rcases ite_ok h with ⟨_, h⟩ | ⟨_, h⟩
  · injection h with h; subst h; exact TopStep.refl _
  · cases h

set_option linter.unusedSimpArgs false in
theorem atype_child_cdata {ck : CK} {t : Str} (hc : compat .atype ck = true) (ht : (t, ck) ∈ ckTable) (d : DocKind) :
    Gen.cdataTags.contains t = true ∧ t ≠ d.topLevel ∧ d.handled.contains t = false := by
  simp only [ckTable, List.mem_cons, Prod.mk.injEq, List.not_mem_nil, or_false] at ht
  rcases ht with ⟨rfl, rfl⟩ | ⟨rfl, rfl⟩ | ⟨rfl, rfl⟩ | ⟨rfl, rfl⟩ | ⟨rfl, rfl⟩ | ⟨rfl, rfl⟩ | ⟨rfl, rfl⟩ | ⟨rfl, rfl⟩ |
      ⟨rfl, rfl⟩ | ⟨rfl, rfl⟩ | ⟨rfl, rfl⟩ <;>
  first
    | (simp [compat, CK.container, CK.decl] at hc; done)
    | (refine ⟨by decide, ?_, ?_⟩ <;> cases d <;> simp only [DocKind.topLevel, DocKind.handled] <;> decide)

theorem atypeChildren_run {env : Env} {h : Hooks} {d : DocKind} {p : Str} (hp : pkOfB (isComp d) p = some .atype)
    {n : Str} {r : List Frame} :
    ∀ (c : List Node) (s s2 : PSt), s.stack = .atype n :: r → visitChildren env h d p s c = .ok s2 → TopStep s s2
  | [], s, s2, _, hv => by
    rw [visitChildren_nil] at hv
    injection hv with hv
    subst hv
    exact TopStep.refl _
  | .text _ :: rest, s, s2, hs, hv => by
    rw [x3_visitChildren_text] at hv
    rcases ite_ok hv with ⟨_, hv⟩ | ⟨_, hv⟩
    · exact atypeChildren_run hp rest s s2 hs hv
    · cases hv
  | .elem t a c0 :: rest, s, s2, hs, hv => by
    rw [visitChildren_elem, bind_ok] at hv
    obtain ⟨s1, he, hv⟩ := hv
    have hn := (visitElem_cases he).1 p rfl
    obtain ⟨ck, hck, hcomp⟩ := nesting_compat hn hp
    obtain ⟨hcd, hnt, hnh⟩ := atype_child_cdata hcomp (ckOf_tag hck) d
    rw [visitElem_cdata_eq hn hnt hnh hcd, bind_ok] at he
    obtain ⟨data, _, hcht⟩ := he
    have h1 := atypeCdata_step hs hcht
    exact h1.trans (atypeChildren_run hp rest s1 s2 (by rw [h1.stack]; exact hs) hv)

theorem abstracttypeElem_step {env : Env} {h : Hooks} {d : DocKind} {p : Str} {st st' : PSt} {a : Attrs} {c : List Node}
    (hv : visitElem env h d (some p) st (.elem "abstracttype".toList a c) = .ok st') : TopStep st st' := by
  have hn := (visitElem_cases hv).1 p rfl
  have h1 : "abstracttype".toList ≠ d.topLevel := by cases d <;> simp only [DocKind.topLevel] <;> decide
  have h2 : d.handled.contains "abstracttype".toList = true := by cases d <;> simp only [DocKind.handled] <;> decide
  rw [visitElem_handled_eq hn h1 h2, bind_ok] at hv
  obtain ⟨s1, hstart, hv⟩ := hv
  rw [bind_ok] at hv
  obtain ⟨s2, hch, hend⟩ := hv
  have hstart' : startAbstracttype st a = .ok s1 := hstart
  unfold startAbstracttype at hstart'
  split at hstart'
  · rw [bind_ok] at hstart'
    obtain ⟨n, _, hstart'⟩ := hstart'
    rw [bind_ok] at hstart'
    obtain ⟨es, hadd, hstart'⟩ := hstart'
    simp only [pure, Except.pure, Except.ok.injEq] at hstart'
    subst hstart'
    obtain ⟨_, hes⟩ := addType_eff hadd
    have hrun := atypeChildren_run (pkOfB_abstracttype _) c _ s2 (r := st.stack) (n := n) rfl hch
    have hend' : popFrame s2 = .ok st' := hend
    have hst' := popFrame_eff hend'
    subst hst'
    refine ⟨?_, hrun.prefixes, ?_, ?_⟩
    · show s2.stack.tail = st.stack
      rw [hrun.stack]; rfl
    · exact (addType_grows hadd).trans hrun.grows
    · intro m
      have : ConcSame m st.es es := by rw [hes]; exact concSame_append _ _ _
      exact this.trans (hrun.frozen m)
  · cases hstart'

/-- `<key>`, `<multikey>`, `<section>`, `<multisection>` directly below `<schema>` -/
theorem topContainer_step {env : Env} {h : Hooks} {d : DocKind} {p t : Str} {st st' : PSt} {a : Attrs} {c : List Node}
    {r : List Frame} (hin : inheritedTags.contains t = true) (hs : st.stack = .schema :: r)
    (hv : visitElem env h d (some p) st (.elem t a c) = .ok st') : TopStep st st' := by
  have htop : topOf st.es st.stack = .ok st.es.top.children := by rw [hs]; rfl
  obtain ⟨sd1, _, hsame⟩ := containerElem_sim hin (SimTop.refl htop) hv
  obtain ⟨ch0, key, info, _, e1, _, _⟩ := hsame
  rw [e1]
  refine ⟨rfl, rfl, setTopOf_grows _ _ _, fun n => concSame_setTopOf _ _ _ _ ?_⟩
  intro D r' hs'
  rw [hs] at hs'
  cases hs'

/-- what a `<sectiontype>` element without `extends` adds: a type whose children are what reading its child elements
    on a fresh type produced -/
structure NewType (env : Env) (h : Hooks) (d : DocKind) (st st' : PSt) (a : Attrs) (c : List Node) : Prop where
  ex : ∃ name nm st1 s' s2 kt dt, attr a "name" = some nm ∧ basicKeyE nm = .ok name ∧ pushPrefix st a = .ok st1 ∧
    getSectTypeinfo env st1 a none = .ok (kt, dt) ∧ s'.stack = .stype name :: st.stack ∧ s'.prefixes = st1.prefixes ∧
    FreshEntry s'.es name kt dt ∧ Grows st.es s'.es ∧
    visitChildren env h d "sectiontype".toList s' c = .ok s2 ∧ StypeRun name s' s2 ∧ st'.es = s2.es

theorem sectiontypeElem_step {env : Env} {h : Hooks} {d : DocKind} {p : Str} {st st' : PSt} {a : Attrs} {c : List Node}
    (hext : attr a "extends" = none) (hv : visitElem env h d (some p) st (.elem "sectiontype".toList a c) = .ok st') :
    TopStep st st' ∧ NewType env h d st st' a c := by
  have hn := (visitElem_cases hv).1 p rfl
  have h1 : "sectiontype".toList ≠ d.topLevel := by cases d <;> simp only [DocKind.topLevel] <;> decide
  have h2 : d.handled.contains "sectiontype".toList = true := by cases d <;> simp only [DocKind.handled] <;> decide
  rw [visitElem_handled_eq hn h1 h2, bind_ok] at hv
  obtain ⟨s', hstart, hv⟩ := hv
  rw [bind_ok] at hv
  obtain ⟨s2, hch, hend⟩ := hv
  have hstart' : startSectiontype env st a = .ok s' := hstart
  obtain ⟨name, st1, kt, dt, hpp, hti, hstack, hpre, hfresh, hgrow, hfrozen, ⟨nm, hnm, hbk⟩, hnew⟩ :=
    startSectiontype_fresh hext hstart'
  obtain ⟨htop', _⟩ := hfresh.topOf st.stack
  have hrun := stypeChildren_run (pkOfB_sectiontype _) c s' s2 hstack ⟨[], by rw [hstack]; exact htop'⟩ hch
  have hend' : popFrame (popPrefix s2) = .ok st' := hend
  have hst' := popFrame_eff hend'
  obtain ⟨x, hst1⟩ := pushPrefix_eff hpp
  refine ⟨⟨?_, ?_, ?_, ?_⟩, ⟨name, nm, st1, s', s2, kt, dt, hnm, hbk, hpp, hti, hstack, hpre, hfresh, hgrow, hch, hrun, ?_⟩⟩
  · rw [hst']
    show s2.stack.tail = st.stack
    rw [hrun.stack, hstack]; rfl
  · rw [hst']
    show s2.prefixes.drop 1 = st.prefixes
    rw [hrun.prefixes, hpre, hst1]; rfl
  · rw [hst']
    exact hgrow.trans hrun.grows
  · intro n q t hf
    rw [hst']
    show s2.es.types.find? _ = _
    refine hrun.frozen n ?_ q t (hfrozen n q t hf)
    intro hnn
    subst hnn
    rw [List.any_eq_false] at hnew
    have hmem := List.mem_of_find?_eq_some hf
    have hq : (q == n) = true := by simpa using List.find?_some hf
    exact hnew _ hmem hq
  · rw [hst']; rfl

end ZCV.Elab
