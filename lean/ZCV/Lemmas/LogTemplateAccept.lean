import ZCV.Lemmas.LogTemplate
/-!
Acceptance and safety of `template` / `safe-template` formats (C20): running `substitute` over the pieces, the sample
record and the known names, the load-time verdicts, formatting a record.
-/
namespace ZCV.LogTemplateLemmas
open ZCV ZCV.LogFormat ZCV.LogTemplate ZCV.LogTemplateSpec ZCV.LogFormatLemmas

/-! ## `runPieces` -/

theorem lt_runPieces_ok (f : Piece → Except PyErr Unit) (ps : List Piece) :
    runPieces f ps = .ok () ↔ ∀ p ∈ ps, f p = .ok () := by
  induction ps with
  | nil => simp [runPieces]
  | cons p rest ih =>
    simp only [runPieces, List.mem_cons, forall_eq_or_imp]
    cases hp : f p with
    | error e => simp
    | ok u => simp only [ih, true_and]

/-- the exception of a run is the exception of one of its pieces -/
theorem lt_runPieces_error (f : Piece → Except PyErr Unit) (ps : List Piece) (e : PyErr)
    (h : runPieces f ps = .error e) : ∃ p ∈ ps, f p = .error e := by
  induction ps with
  | nil => simp [runPieces] at h
  | cons p rest ih =>
    simp only [runPieces] at h
    cases hp : f p with
    | error e' =>
      simp only [hp, Except.error.injEq] at h
      subst h
      exact ⟨p, List.mem_cons_self, hp⟩
    | ok u =>
      simp only [hp] at h
      obtain ⟨q, hq, hf⟩ := ih h
      exact ⟨q, List.mem_cons_of_mem _ hq, hf⟩

theorem lt_mem_refs {ps : List Piece} {n : Str} : n ∈ refs ps ↔ ∃ p ∈ ps, p.ref = some n := by
  simp only [refs, List.mem_filterMap]

theorem lt_any_invalid (ps : List Piece) : ps.any Piece.isInvalid = true ↔ Piece.invalid ∈ ps := by
  rw [List.any_eq_true]
  constructor
  · rintro ⟨p, hp, hi⟩
    cases p <;> first | exact hp | cases hi
  · intro h
    exact ⟨.invalid, h, rfl⟩

/-! ## `str()` -/

theorem lt_strCheck_ok (v : Value) : strCheck v = .ok () ↔ StrOk v := by
  unfold StrOk
  cases v with
  | int n =>
    simp only [strCheck, Value.int.injEq]
    constructor
    · intro h m hm
      subst hm
      split at h
      · assumption
      · cases h
    · intro h
      simp only [h n rfl, if_true]
  | _ => simp [strCheck]

theorem lt_strOkB (v : Value) (h : strOkB v = true) : StrOk v := by
  intro n hn
  subst hn
  simpa [strOkB] using h

/-- a piece converts without raising exactly when it is not an invalid `$` and the name it refers to (if any) is in the
    mapping with a printable value -/
theorem lt_substPiece_ok (d : Dict) (p : Piece) :
    substPiece d p = .ok () ↔ p ≠ .invalid ∧ ∀ n, p.ref = some n → ∃ v, d n = some v ∧ StrOk v := by
  cases p with
  | lit s => simp [substPiece, Piece.ref]
  | escaped => simp [substPiece, Piece.ref]
  | invalid => simp [substPiece]
  | named n =>
    simp only [substPiece, Piece.ref, Option.some.injEq, ne_eq, reduceCtorEq, not_false_eq_true, true_and, forall_eq']
    cases hd : d n with
    | none => simp
    | some v => simp [lt_strCheck_ok]
  | braced n =>
    simp only [substPiece, Piece.ref, Option.some.injEq, ne_eq, reduceCtorEq, not_false_eq_true, true_and, forall_eq']
    cases hd : d n with
    | none => simp
    | some v => simp [lt_strCheck_ok]

theorem lt_safePiece_ok (d : Dict) (p : Piece) :
    safePiece d p = .ok () ↔ ∀ n v, p.ref = some n → d n = some v → StrOk v := by
  cases p with
  | lit s => simp [safePiece, Piece.ref]
  | escaped => simp [safePiece, Piece.ref]
  | invalid => simp [safePiece, Piece.ref]
  | named n =>
    simp only [safePiece, Piece.ref, Option.some.injEq]
    constructor
    · intro h m w hm hw
      subst hm
      simp only [hw] at h
      exact (lt_strCheck_ok w).mp h
    · intro h
      cases hd : d n with
      | none => rfl
      | some v => exact (lt_strCheck_ok v).mpr (h n v rfl hd)
  | braced n =>
    simp only [safePiece, Piece.ref, Option.some.injEq]
    constructor
    · intro h m w hm hw
      subst hm
      simp only [hw] at h
      exact (lt_strCheck_ok w).mp h
    · intro h
      cases hd : d n with
      | none => rfl
      | some v => exact (lt_strCheck_ok v).mpr (h n v rfl hd)

/-- `Template(fmt).substitute(d)` works exactly when no `$` is invalid and every name referred to is in the mapping
    with a printable value -/
theorem lt_substitute_ok (fmt : Str) (d : Dict) :
    substitute fmt d = .ok () ↔
      Piece.invalid ∉ scan fmt ∧ ∀ n ∈ refs (scan fmt), ∃ v, d n = some v ∧ StrOk v := by
  unfold substitute
  rw [lt_runPieces_ok]
  constructor
  · intro h
    refine ⟨fun hi => ((lt_substPiece_ok d _).mp (h _ hi)).1 rfl, fun n hn => ?_⟩
    obtain ⟨p, hp, hr⟩ := lt_mem_refs.mp hn
    exact ((lt_substPiece_ok d p).mp (h p hp)).2 n hr
  · rintro ⟨h1, h2⟩ p hp
    rw [lt_substPiece_ok]
    exact ⟨fun he => h1 (he ▸ hp), fun n hr => h2 n (lt_mem_refs.mpr ⟨p, hp, hr⟩)⟩

theorem lt_safeSubstitute_ok (fmt : Str) (d : Dict) :
    safeSubstitute fmt d = .ok () ↔ ∀ n ∈ refs (scan fmt), ∀ v, d n = some v → StrOk v := by
  unfold safeSubstitute
  rw [lt_runPieces_ok]
  constructor
  · intro h n hn v hv
    obtain ⟨p, hp, hr⟩ := lt_mem_refs.mp hn
    exact (lt_safePiece_ok d p).mp (h p hp) n v hr hv
  · intro h p hp
    rw [lt_safePiece_ok]
    exact fun n v hr hv => h n (lt_mem_refs.mpr ⟨p, hp, hr⟩) v hv

/-- the exceptions of `substitute`: ValueError (invalid `$`, or `str()` of a huge int) and KeyError, nothing else -/
theorem lt_substitute_error (fmt : Str) (d : Dict) (e : PyErr) (h : substitute fmt d = .error e) :
    e = .valueError ∨ e = .keyError := by
  obtain ⟨p, _, hf⟩ := lt_runPieces_error _ _ _ h
  have hs : ∀ v, strCheck v = .error e → e = .valueError := by
    intro v hv
    cases v <;> simp only [strCheck, reduceCtorEq] at hv
    split at hv
    · cases hv
    · injection hv with hv; exact hv.symm
  cases p with
  | lit s => cases hf
  | escaped => cases hf
  | invalid => injection hf with hf; exact .inl hf.symm
  | named n =>
    simp only [substPiece] at hf
    split at hf
    · injection hf with hf; exact .inr hf.symm
    · exact .inl (hs _ hf)
  | braced n =>
    simp only [substPiece] at hf
    split at hf
    · injection hf with hf; exact .inr hf.symm
    · exact .inl (hs _ hf)

/-- the only exception of `safe_substitute` is the ValueError of `str()` on a huge int -/
theorem lt_safeSubstitute_error (fmt : Str) (d : Dict) (e : PyErr) (h : safeSubstitute fmt d = .error e) :
    e = .valueError := by
  obtain ⟨p, _, hf⟩ := lt_runPieces_error _ _ _ h
  have hs : ∀ v, strCheck v = .error e → e = .valueError := by
    intro v hv
    cases v <;> simp only [strCheck, reduceCtorEq] at hv
    split at hv
    · cases hv
    · injection hv with hv; exact hv.symm
  cases p with
  | lit s => cases hf
  | escaped => cases hf
  | invalid => cases hf
  | named n =>
    simp only [safePiece] at hf
    split at hf
    · cases hf
    · exact hs _ hf
  | braced n =>
    simp only [safePiece] at hf
    split at hf
    · cases hf
    · exact hs _ hf

/-! ## The sample record -/

/-- the literal list of the model is the key list of the sample record of the classic model -/
theorem knownNames_eq : knownNames = sampleVars.map (·.1) := by decide +kernel

/-- `str()` works on every value of the sample record -/
theorem lt_sample_strOk : ∀ p ∈ sampleVars, strOkB p.2 = true := by decide +kernel

theorem lt_sample_known (k : Str) : k ∈ knownNames ↔ ∃ v, sampleDict k = some v := by
  rw [knownNames_eq, List.mem_map]
  constructor
  · rintro ⟨⟨k', v⟩, hm, rfl⟩
    exact ⟨v, (lf_sample_iff _ _).mpr hm⟩
  · rintro ⟨v, hv⟩
    exact ⟨(k, v), (lf_sample_iff _ _).mp hv, rfl⟩

theorem lt_sample_printable (k : Str) (v : Value) (h : sampleDict k = some v) : StrOk v :=
  lt_strOkB v (lt_sample_strOk (k, v) ((lf_sample_iff k v).mp h))

theorem lt_sample_known' (k : Str) : k ∈ knownNames ↔ ∃ v, sampleDict k = some v ∧ StrOk v := by
  rw [lt_sample_known]
  exact ⟨fun ⟨v, hv⟩ => ⟨v, hv, lt_sample_printable k v hv⟩, fun ⟨v, hv, _⟩ => ⟨v, hv⟩⟩

/-! ## Load-time verdicts -/

theorem lt_validate_ok (fmt : Str) :
    validate fmt = .ok () ↔
      Piece.invalid ∉ scan (effectiveTemplate fmt) ∧ refs (scan (effectiveTemplate fmt)) ≠ [] := by
  unfold validate
  by_cases h1 : (scan (effectiveTemplate fmt)).any Piece.isInvalid = true
  · simp only [h1, if_true, reduceCtorEq, false_iff]
    exact fun h => h.1 ((lt_any_invalid _).mp h1)
  · have h1' : Piece.invalid ∉ scan (effectiveTemplate fmt) := fun h => h1 ((lt_any_invalid _).mpr h)
    simp only [h1]
    cases hr : refs (scan (effectiveTemplate fmt)) with
    | nil => simp
    | cons a t => simp [h1']

theorem lt_acceptsTemplate_iff (fmt : Str) :
    acceptsTemplate fmt = true ↔
      substitute (effectiveTemplate fmt) sampleDict = .ok () ∧ validate fmt = .ok () := by
  unfold acceptsTemplate loadCheckTemplate buildTemplateFormatter
  cases h1 : substitute (effectiveTemplate fmt) sampleDict with
  | error e => simp
  | ok u =>
    cases h2 : validate fmt with
    | error e => simp
    | ok u => simp

theorem lt_templateAccepted_iff (fmt : Str) : acceptsTemplate fmt = true ↔ TemplateAccepted fmt := by
  rw [lt_acceptsTemplate_iff, lt_substitute_ok, lt_validate_ok]
  constructor
  · rintro ⟨⟨h1, h2⟩, _, h3⟩
    exact ⟨h1, fun n hn => (lt_sample_known' n).mpr (h2 n hn), h3⟩
  · rintro ⟨h1, h2, h3⟩
    exact ⟨⟨h1, fun n hn => (lt_sample_known' n).mp (h2 n hn)⟩, h1, h3⟩

theorem lt_acceptsSafeTemplate (fmt : Str) : acceptsSafeTemplate fmt = true := by
  unfold acceptsSafeTemplate loadCheckSafeTemplate buildSafeTemplateFormatter
  have : safeSubstitute (effectiveTemplate fmt) sampleDict = .ok () :=
    (lt_safeSubstitute_ok _ _).mpr (fun n _ v hv => lt_sample_printable n v hv)
  simp only [this]

/-! ## Formatting a record -/

theorem lt_formatTemplate_ok (fmt : Str) (r : Dict) :
    formatTemplate fmt r = .ok () ↔ substitute (effectiveTemplate fmt) r = .ok () := by
  unfold formatTemplate
  cases h : substitute (effectiveTemplate fmt) r with
  | ok u => simp
  | error e => cases e <;> simp

theorem lt_hasInfix_of_piece {s : Str} {p : Piece} (h : p ∈ scan s) : hasInfix p.text s = true := by
  obtain ⟨pre, post, hs⟩ := lt_mem_scan_infix h
  rw [hs]
  exact lf_hasInfix_append _ _ _

/-- a format that refers to `asctime` uses the time -/
theorem lt_usesTime_of_ref (fmt : Str) (h : "asctime".toList ∈ refs (scan (effectiveTemplate fmt))) :
    usesTimeTemplate fmt = true := by
  obtain ⟨p, hp, hr⟩ := lt_mem_refs.mp h
  have hi := lt_hasInfix_of_piece hp
  unfold usesTimeTemplate
  cases p with
  | named n =>
    simp only [Piece.ref, Option.some.injEq] at hr
    subst hr
    have : hasInfix "$asctime".toList (effectiveTemplate fmt) = true := hi
    simp only [this, Bool.true_or]
  | braced n =>
    simp only [Piece.ref, Option.some.injEq] at hr
    subst hr
    have : hasInfix "${asctime}".toList (effectiveTemplate fmt) = true := hi
    simp only [this, Bool.or_true]
  | lit s => cases hr
  | escaped => cases hr
  | invalid => cases hr

theorem lt_hasKnown_of_table (tbl : List (Str × Value)) (h : hasKnownTable tbl = true) : HasKnown (lookup tbl) := by
  intro k hk
  simp only [hasKnownTable, List.all_eq_true] at h
  have := h k hk
  split at this
  · rename_i v hv
    exact ⟨v, hv, lt_strOkB v this⟩
  · cases this

theorem lt_printable_of_table (tbl : List (Str × Value)) (h : printableTable tbl = true) : Printable (lookup tbl) := by
  intro k v hv
  simp only [printableTable, List.all_eq_true] at h
  exact lt_strOkB v (h (k, v) (lf_lookup_mem hv))

end ZCV.LogTemplateLemmas
