import ZCV.Lemmas.ImportLoadText
/-!
Consistency with the import-free development: for a text without `%import` lines (here and in what it can include),
the top-level items `treeOfI` builds are the items of `treeOf` (`ZCV/Spec/Tree.lean`), and no `%import` is met inside a
section.
-/
namespace ZCV.Conf
open ZCV ZCV.Cfg

/-- the two structure-recording contexts side by side: same open sections, the outermost entry of the old context is
    the top level of the new one -/
def RF (F : List (Str × Option Str)) (tb : TB) (tbi : TBI) : Prop :=
  tbi.nested = false ∧ tbi.stack.map hdr = F ∧
    ∃ ty0 nm0 items0, tb.stack = tbi.stack ++ [(ty0, nm0, items0)] ∧ tbi.tops = items0.map .item

theorem freeSim : CtxSim treeCtx treeCtxI RF (fun _ => False) where
  canInc := rfl
  canDef := rfl
  dead := ⟨fun _ _ _ _ _ h _ => h, fun _ _ _ _ _ h _ => h, fun _ _ _ _ _ _ h _ => h, fun _ _ _ _ h _ => h⟩
  start := by
    intro F a b ty nm hR
    obtain ⟨hn, hsh, ty0, nm0, items0, hst, htops⟩ := hR
    refine ⟨_, rfl, hn, ?_, ty0, nm0, items0, ?_, htops⟩
    · simp [hdr, ← hsh]
    · simp [hst]
  stop := by
    intro F a b ty nm hR
    obtain ⟨hn, hsh, ty0, nm0, items0, hst, htops⟩ := hR
    show SimO _ _ (tbStop a ty nm).toOption (tbiStop b ty nm).toOption
    unfold tbStop tbiStop
    cases hb : b.stack with
    | nil => rw [hb] at hsh; simp at hsh
    | cons x rest =>
      obtain ⟨ty1, nm1, items1⟩ := x
      rw [hb] at hst hsh
      cases rest with
      | nil =>
        rw [hst]
        refine ⟨_, rfl, hn, ?_, ty0, nm0, _, rfl, ?_⟩
        · simp only [List.map_cons, List.map_nil, List.cons.injEq] at hsh
          exact hsh.2
        · simp [htops]
      | cons y rest =>
        obtain ⟨pty, pnm, pitems⟩ := y
        rw [hst]
        refine ⟨_, rfl, hn, ?_, ty0, nm0, items0, rfl, htops⟩
        simp only [List.map_cons, List.cons.injEq] at hsh
        simpa [hdr] using hsh.2
  value := by
    intro F a b k v p hR
    obtain ⟨hn, hsh, ty0, nm0, items0, hst, htops⟩ := hR
    show SimO _ _ (tbValue a k v p).toOption (tbiValue b k v p).toOption
    unfold tbValue tbiValue
    cases hb : b.stack with
    | nil =>
      rw [hb] at hst hsh
      rw [hst]
      refine ⟨_, rfl, hn, hsh, ty0, nm0, _, rfl, ?_⟩
      simp [htops]
    | cons x rest =>
      obtain ⟨ty1, nm1, items1⟩ := x
      rw [hb] at hst hsh
      rw [hst]
      exact ⟨_, rfl, hn, by simpa [hdr] using hsh, ty0, nm0, items0, rfl, htops⟩

/-- **`treeOfI` extends `treeOf`**: on a text without `%import` lines the new tree builder accepts iff the old one does,
    delivers the same items, and meets no `%import` inside a section -/
theorem treeOfI_import_free (env : Env) (url : Option Str) (lines : List Str)
    (hni : ∀ l ∈ lines, NoImportLine l) (hres : ∀ u ls, env.res u = some ls → ∀ l ∈ ls, NoImportLine l) :
    (treeOfI env url lines).toOption = (treeOf env url lines).toOption.map (List.map .item) ∧
      importsAtTop env url lines := by
  have hsim := parse_sim treeCtx treeCtxI RF (fun _ => False) freeSim env hres 64 (activeOf url) url lines 0
    { ctx := { stack := [([], none, [])] }, stack := [], defs := [] }
    { ctx := { tops := [], stack := [], nested := false }, stack := [], defs := [] } [] hni
    ⟨rfl, rfl, rfl, rfl, [], none, [], rfl, rfl⟩
  unfold importsAtTop treeOfI
  rw [treeOf_eq, parseI_eq, toOption_map, toOption_bind]
  cases hT : parseLines 64 env treeCtx (activeOf url) url lines 0
      { ctx := { stack := [([], none, [])] }, stack := [], defs := [] } with
  | ok psT =>
    rw [hT] at hsim
    obtain ⟨psI, hI, ⟨_, _, hn, hsh, ty0, nm0, items0, hst, htops⟩, hnil⟩ := hsim
    rw [toOption_eq_some] at hI
    rw [hI]
    have hts : psI.ctx.stack = [] := by
      rw [hnil] at hsh
      simpa using hsh
    rw [hts] at hst
    refine ⟨?_, fun ps h => by cases h; exact hn⟩
    simp only [toOption_ok, Option.map_some, Option.bind_some]
    rw [hst]
    simp only [List.nil_append, pure, Except.pure, toOption_ok, Option.map_some, htops, List.map_reverse]
  | error e =>
    rw [hT] at hsim
    cases hI : parseLines 64 env treeCtxI (activeOf url) url lines 0
        { ctx := { tops := [], stack := [], nested := false }, stack := [], defs := [] } with
    | error e' => exact ⟨rfl, fun ps h => by cases h⟩
    | ok psI => exact absurd (hsim psI (by rw [hI]; rfl)) (fun h => h)

end ZCV.Conf
