import ZCV.Lemmas.LoadFinish
import ZCV.Lemmas.NoInternalParse
/-!
C07, matcher part: the *typing* invariant of a matcher (`MOK`: every child of the section type has a slot, and the slot
has the shape that goes with the child's kind) is established by `newMatcher`, preserved by `addValueCore` /
`addValue` / `addSection` / `finishBag`, and under it none of these — nor `finishChild`, `constructChild`,
`finishMatcher`, `mkBag`, `bagSectionInfo` — ends in `.internal`.

What is needed of a section type is only the schema-independent part of `stypeOK` (`typeWF`): distinct attribute
names, a key child is stored under its own non-empty name, and a required single key has no default.
-/
namespace ZCV.Cfg
open ZCV ZCV.Conf

/-! ### well-formedness of types, type tables, schemas and components (decidable; implied by `stypeOK` / `schemaOK`) -/

/-- the schema-independent part of `stypeOK` that the loader relies on -/
def typeWF (t : SType) : Bool :=
  nodupB (t.children.map (·.2.attr)) &&
  t.children.all fun c =>
    match c.2 with
    | .key ki =>
      c.1 == some ki.name && !ki.name.isEmpty &&
      (ki.name == ['+'] || ki.multi || (match ki.dflt with | .one _ => ki.minOccurs == 0 | _ => true))
    | .sect _ => true

/-- a type table: every concrete type is stored under its own name and is well-formed -/
def typesWF (types : List (Str × TypeEntry)) : Bool :=
  types.all fun p => match p.2 with | .concrete t => t.name == some p.1 && typeWF t | .abstract_ _ _ => true

def schemaWF (s : Schema) : Bool := typeWF s.top && typesWF s.types

/-- a schema component that `%import` may bring in -/
def pkgWF : Pkg → Bool
  | .component _ types _ => typesWF types
  | _ => true

theorem stypeOK_typeWF (s : Schema) (t : SType) (h : stypeOK s t = true) : typeWF t = true := by
  unfold stypeOK distinctB at h
  unfold typeWF
  simp only [Bool.and_eq_true, List.all_eq_true] at h ⊢
  obtain ⟨⟨⟨h1, _⟩, _⟩, h4⟩ := h
  refine ⟨h1, ?_⟩
  intro c hc
  have := h4 c hc
  cases hi : c.2 with
  | sect si => rfl
  | key ki =>
    simp only [hi, Bool.and_eq_true] at this ⊢
    refine ⟨this.1, ?_⟩
    have h3 := this.2
    by_cases hp : (ki.name == ['+']) = true
    · simp [hp]
    · by_cases hm : ki.multi = true
      · simp [hm]
      · simp only [hp, hm, if_false, Bool.false_eq_true] at h3
        simp only [hp, hm, Bool.or_self, Bool.false_or]
        cases hd : ki.dflt <;> simp_all

theorem schemaOK_schemaWF (s : Schema) (h : schemaOK s = true) : schemaWF s = true := by
  unfold schemaOK at h
  unfold schemaWF typesWF
  simp only [Bool.and_eq_true, List.all_eq_true] at h ⊢
  obtain ⟨⟨h1, _⟩, h3⟩ := h
  refine ⟨stypeOK_typeWF s _ h1, ?_⟩
  intro p hp
  have := h3 p hp
  obtain ⟨n, te⟩ := p
  cases te with
  | abstract_ n' subs => rfl
  | concrete t =>
    simp only [Bool.and_eq_true] at this ⊢
    exact ⟨this.1, stypeOK_typeWF s t this.2⟩

/-- what `typeWF` says, as propositions -/
structure TOK (t : SType) : Prop where
  attrs : (t.children.map (·.2.attr)).Nodup
  key : ∀ c ∈ t.children, ∀ ki, c.2 = .key ki → c.1 = some ki.name ∧ ki.name ≠ []
  dflt : ∀ c ∈ t.children, ∀ ki d, c.2 = .key ki → ki.name ≠ ['+'] → ki.multi = false → ki.dflt = .one d →
    ki.minOccurs = 0

theorem typeWF_TOK (t : SType) (h : typeWF t = true) : TOK t := by
  unfold typeWF at h
  simp only [Bool.and_eq_true, nodupB_iff, List.all_eq_true] at h
  obtain ⟨h1, h2⟩ := h
  refine ⟨h1, ?_, ?_⟩
  · intro c hc ki hki
    have := h2 c hc
    simp only [hki, Bool.and_eq_true, beq_iff_eq, Bool.not_eq_true', List.isEmpty_eq_false_iff] at this
    exact ⟨this.1.1, this.1.2⟩
  · intro c hc ki d hki hp hm hd
    have := h2 c hc
    simp only [hki, Bool.and_eq_true, Bool.or_eq_true, beq_iff_eq, hd] at this
    rcases this.2 with (h | h) | h
    · exact absurd h hp
    · rw [hm] at h; cases h
    · exact h

def TypesOK (types : List (Str × TypeEntry)) : Prop :=
  ∀ n t, (n, TypeEntry.concrete t) ∈ types → t.name = some n ∧ TOK t

theorem typesWF_TypesOK (types : List (Str × TypeEntry)) (h : typesWF types = true) : TypesOK types := by
  intro n t hm
  unfold typesWF at h
  rw [List.all_eq_true] at h
  have := h _ hm
  simp only [Bool.and_eq_true, beq_iff_eq] at this
  exact ⟨this.1, typeWF_TOK t this.2⟩

def SOK (s : Schema) : Prop := TOK s.top ∧ TypesOK s.types

theorem schemaWF_SOK (s : Schema) (h : schemaWF s = true) : SOK s := by
  unfold schemaWF at h
  simp only [Bool.and_eq_true] at h
  exact ⟨typeWF_TOK _ h.1, typesWF_TypesOK _ h.2⟩

/-! ### failures that are never `.internal` -/

theorem convFail_no_internal (ce : ConvErr) (v : Option Str) (p : Pos) (tag : String) (e : String) :
    convFail ce v p tag ≠ .internal e := by
  cases ce <;> intro h <;> cases h

theorem mapM_no_internal {α β} (f : α → M β) : ∀ (l : List α), (∀ x ∈ l, ∀ e, f x ≠ .error (.internal e)) →
    ∀ e, l.mapM f ≠ .error (.internal e) := by
  intro l
  induction l with
  | nil => intro _ e h; cases h
  | cons a l ih =>
    intro hf e h
    rw [List.mapM_cons] at h
    cases hfa : f a with
    | error x =>
      rw [hfa] at h
      cases h
      exact hf a List.mem_cons_self e hfa
    | ok b =>
      rw [hfa] at h
      cases hl : l.mapM f with
      | error x =>
        rw [hl] at h
        cases h
        exact ih (fun x hx => hf x (List.mem_cons_of_mem _ hx)) e hl
      | ok bs => rw [hl] at h; cases h

theorem mapM_ok_mem {α β} (f : α → M β) : ∀ (l : List α) (r : List β), l.mapM f = .ok r →
    ∀ y ∈ r, ∃ x ∈ l, f x = .ok y := by
  intro l
  induction l with
  | nil =>
    intro r h y hy
    cases h
    cases hy
  | cons a l ih =>
    intro r h y hy
    obtain ⟨b, bs, h1, h2, rfl⟩ := mapM_ok_cons f a l r h
    rcases List.mem_cons.mp hy with rfl | hy'
    · exact ⟨a, List.mem_cons_self, h1⟩
    · obtain ⟨x, hx, hfx⟩ := ih bs h2 y hy'
      exact ⟨x, List.mem_cons_of_mem _ hx, hfx⟩

theorem map_no_internal {α β} (x : M α) (g : α → β) (e : String) (h : x.map g = .error (.internal e)) :
    x = .error (.internal e) := by
  cases x with
  | ok a => cases h
  | error f => simp only [Except.map] at h; cases h; rfl

theorem ok_res {α} (P : α → Prop) (a : α) (hP : P a) :
    (∀ e, (Except.ok a : M α) ≠ .error (.internal e)) ∧ (∀ a', (Except.ok a : M α) = .ok a' → P a') :=
  ⟨fun e h => (by cases h), fun a' h => (by cases h; exact hP)⟩

theorem err_res {α} (P : α → Prop) (f : Fail) (hf : ∀ e, f ≠ .internal e) :
    (∀ e, (Except.error f : M α) ≠ .error (.internal e)) ∧ (∀ a', (Except.error f : M α) = .ok a' → P a') :=
  ⟨fun e h => (by cases h; exact hf e rfl), fun a' h => (by cases h)⟩

theorem plainErr_ni (tag : String) (e : String) : plainErr tag ≠ .internal e := by
  intro h; cases h

theorem cfg_ni (x : Err) (e : String) : Fail.cfg x ≠ .internal e := by
  intro h; cases h

/-- `foldlM` with an invariant on the accumulator -/
theorem foldlM_inv {α β} (f : β → α → M β) (P : β → Prop) : ∀ (l : List α) (b : β), P b →
    (∀ b a, a ∈ l → P b → (∀ e, f b a ≠ .error (.internal e)) ∧ (∀ b', f b a = .ok b' → P b')) →
    (∀ e, l.foldlM f b ≠ .error (.internal e)) ∧ (∀ b', l.foldlM f b = .ok b' → P b') := by
  intro l
  induction l with
  | nil =>
    intro b hb _
    exact ⟨fun e h => (by cases h), fun b' h => (by cases h; exact hb)⟩
  | cons a l ih =>
    intro b hb hstep
    obtain ⟨h1, h2⟩ := hstep b a List.mem_cons_self hb
    rw [List.foldlM_cons]
    cases hfa : f b a with
    | error x =>
      constructor
      · intro e h
        cases h
        exact h1 e hfa
      · intro b' h; cases h
    | ok b1 =>
      simp only [bind, Except.bind]
      exact ih b1 (h2 b1 hfa) (fun b a ha => hstep b a (List.mem_cons_of_mem _ ha))

/-! ### the typing invariant of a matcher -/

/-- a raw section value names a concrete type of the schema (so that its section datatype can be found) -/
def sectValOK (s : Schema) : Val → Prop
  | .sect ty _ _ => ∃ t, s.gettype ty = some (.concrete t)
  | _ => True

/-- the slot has the shape that goes with the kind of child -/
def slotFits (s : Schema) : Info → Slot → Prop
  | .key ki, .mmap _ => ki.name = ['+'] ∧ ki.multi = true
  | .key ki, .map _ => ki.name = ['+'] ∧ ki.multi = false
  | .key ki, .many _ => ki.name ≠ ['+'] ∧ ki.multi = true
  | .key ki, .one _ => ki.name ≠ ['+'] ∧ ki.multi = false
  | .key ki, .none => ki.name ≠ ['+'] ∧ ki.multi = false
  | .sect si, .sects vs => si.multi = true ∧ ∀ v ∈ vs, sectValOK s v
  | .sect si, .sect v => si.multi = false ∧ sectValOK s v
  | .sect si, .none => si.multi = false
  | _, _ => False

/-- an option bag: what is left for sub-sections has at least a section name and a key -/
def BagOK (b : Bag) : Prop := ∀ it ∈ b.sectitems, 2 ≤ it.path.length

structure MOK (s : Schema) (m : Matcher) : Prop where
  tok : TOK m.ty
  fits : ∀ c ∈ m.ty.children, ∃ sl, getSlot m c.2.attr = some sl ∧ slotFits s c.2 sl
  bag : ∀ b, m.bag = some b → BagOK b

/-- the schema only grows: concrete types stay what they are -/
def SExt (s s' : Schema) : Prop := ∀ name t, s.gettype name = some (.concrete t) → s'.gettype name = some (.concrete t)

theorem SExt.refl (s : Schema) : SExt s s := fun _ _ h => h
theorem SExt.trans {a b c : Schema} (h1 : SExt a b) (h2 : SExt b c) : SExt a c := fun n t h => h2 n t (h1 n t h)

theorem sectValOK_mono {s s' : Schema} (h : SExt s s') (v : Val) (hv : sectValOK s v) : sectValOK s' v := by
  cases v <;> try exact hv
  obtain ⟨t, ht⟩ := hv
  exact ⟨t, h _ _ ht⟩

theorem slotFits_mono {s s' : Schema} (h : SExt s s') (ci : Info) (sl : Slot) (hf : slotFits s ci sl) :
    slotFits s' ci sl := by
  cases ci with
  | key ki => cases sl <;> exact hf
  | sect si =>
    cases sl with
    | sects vs => exact ⟨hf.1, fun v hv => sectValOK_mono h v (hf.2 v hv)⟩
    | sect v => exact ⟨hf.1, sectValOK_mono h v hf.2⟩
    | none => exact hf
    | one _ => exact hf
    | many _ => exact hf
    | map _ => exact hf
    | mmap _ => exact hf
    | done _ => exact hf

theorem MOK.mono {s s' : Schema} (h : SExt s s') {m : Matcher} (hm : MOK s m) : MOK s' m :=
  ⟨hm.tok, fun c hc => by
    obtain ⟨sl, h1, h2⟩ := hm.fits c hc
    exact ⟨sl, h1, slotFits_mono h _ _ h2⟩, hm.bag⟩

/-! ### reading and writing slots -/

theorem find_setmap (a a' : Str) (sl : Slot) : ∀ (vals : List (Str × Slot)),
    ((vals.map (fun p => if p.1 == a then (a, sl) else p)).find? (·.1 == a')).map (·.2) =
      if a' = a then ((vals.find? (·.1 == a')).map (·.2)).map (fun _ => sl)
      else (vals.find? (·.1 == a')).map (·.2) := by
  intro vals
  induction vals with
  | nil => simp
  | cons p t ih =>
    simp only [List.map_cons, List.find?_cons]
    by_cases hpa : (p.1 == a) = true
    · have hpa' : p.1 = a := by simpa using hpa
      simp only [hpa, if_true]
      by_cases haa : a' = a
      · subst haa
        simp [hpa']
      · have h1 : (a == a') = false := by simpa using fun h => haa h.symm
        have h2 : (p.1 == a') = false := by rw [hpa']; exact h1
        simp only [h1, h2, haa, if_false]
        rw [ih]
        simp [haa]
    · simp only [hpa, if_false, Bool.false_eq_true]
      by_cases hpa2 : (p.1 == a') = true
      · have : p.1 = a' := by simpa using hpa2
        have haa : ¬ a' = a := by
          intro h; apply hpa; rw [this, h]; simp
        simp [hpa2, haa]
      · simp only [hpa2]
        exact ih

theorem getSlot_setSlot (m : Matcher) (a a' : Str) (sl : Slot) :
    getSlot (setSlot m a sl) a' = if a' = a then (getSlot m a').map (fun _ => sl) else getSlot m a' := by
  unfold getSlot setSlot
  exact find_setmap a a' sl m.values

theorem attr_inj' (t : SType) (hT : TOK t) (c c0 : Option Str × Info) (hc : c ∈ t.children)
    (hc0 : c0 ∈ t.children) (h : c.2.attr = c0.2.attr) : c = c0 :=
  nodup_map_inj (fun c : Option Str × Info => c.2.attr) _ hT.attrs c hc c0 hc0 h

theorem MOK.setSlot {s : Schema} {m : Matcher} (hm : MOK s m) (c : Option Str × Info) (hc : c ∈ m.ty.children)
    (sl : Slot) (hf : slotFits s c.2 sl) : MOK s (setSlot m c.2.attr sl) := by
  refine ⟨hm.tok, ?_, hm.bag⟩
  intro c' hc'
  rw [getSlot_setSlot]
  obtain ⟨sl0, h1, h2⟩ := hm.fits c' hc'
  by_cases h : c'.2.attr = c.2.attr
  · have : c' = c := attr_inj' m.ty hm.tok c' c hc' hc h
    subst this
    simp only [if_true, h1, Option.map_some]
    exact ⟨sl, rfl, hf⟩
  · simp only [h, if_false]
    exact ⟨sl0, h1, h2⟩

theorem slotFits_init (s : Schema) (ci : Info) : slotFits s ci (initSlot ci) := by
  cases ci with
  | key ki =>
    unfold initSlot
    by_cases hp : (ki.name == ['+']) = true
    · have hp' : ki.name = ['+'] := by simpa using hp
      simp only [hp, if_true]
      cases hm : ki.multi
      · exact ⟨hp', hm⟩
      · exact ⟨hp', hm⟩
    · have hp' : ki.name ≠ ['+'] := by simpa using hp
      simp only [hp, if_false, Bool.false_eq_true]
      cases hm : ki.multi
      · exact ⟨hp', hm⟩
      · exact ⟨hp', hm⟩
  | sect si =>
    unfold initSlot
    cases hm : si.multi
    · simp only [hm, Bool.false_eq_true, if_false]
      exact hm
    · simp only [hm, if_true]
      exact ⟨hm, fun v hv => by cases hv⟩

theorem MOK.new (s : Schema) (t : SType) (ht : TOK t) (name : Option Str) (bag : Option Bag)
    (hb : ∀ b, bag = some b → BagOK b) : MOK s (newMatcher t name bag) := by
  refine ⟨ht, ?_, hb⟩
  intro c hc
  refine ⟨initSlot c.2, ?_, slotFits_init s c.2⟩
  unfold getSlot newMatcher
  simp only
  rw [find_attr (fun c => initSlot c.2) c _ ht.attrs hc]
  rfl

/-! ### `getsectioninfo` -/

theorem gsi_go (s : Schema) (ty : Str) (nm : Option Str) : ∀ (l : List (Option Str × Info)),
    (∀ c ∈ l, ∀ ki, c.2 = .key ki → c.1 = some ki.name ∧ ki.name ≠ []) →
    (∀ e, getsectioninfo.go s ty nm l ≠ .error (.internal e)) ∧
    (∀ si, getsectioninfo.go s ty nm l = .ok si → ∃ k, (k, Info.sect si) ∈ l) := by
  intro l
  induction l with
  | nil =>
    intro _
    rw [getsectioninfo.go]
    exact ⟨fun e h => (by cases h), fun si h => (by cases h)⟩
  | cons c rest ih =>
    intro hsh
    obtain ⟨ih1, ih2⟩ := ih (fun c hc => hsh c (List.mem_cons_of_mem _ hc))
    obtain ⟨key, info⟩ := c
    have ih2' : ∀ si, getsectioninfo.go s ty nm rest = .ok si → ∃ k, (k, Info.sect si) ∈ (key, info) :: rest :=
      fun si h => let ⟨k, hk⟩ := ih2 si h; ⟨k, List.mem_cons_of_mem _ hk⟩
    have unk : ∀ si, info = .sect si →
        (∀ e, getsectioninfo.goUnkeyed s ty nm info rest ≠ .error (.internal e)) ∧
        (∀ si', getsectioninfo.goUnkeyed s ty nm info rest = .ok si' → ∃ k, (k, Info.sect si') ∈ (key, info) :: rest) := by
      intro si hsi
      subst hsi
      unfold getsectioninfo.goUnkeyed
      repeat' split
      all_goals first
        | exact ⟨ih1, ih2'⟩
        | exact err_res _ _ (plainErr_ni _)
        | exact ok_res _ _ ⟨_, List.mem_cons_self⟩
    rw [getsectioninfo.go.eq_def]
    simp only
    cases info with
    | key ki =>
      obtain ⟨hk1, hk2⟩ := hsh _ List.mem_cons_self ki rfl
      simp only at hk1
      subst hk1
      have hne : (ki.name != []) = true := by simpa using hk2
      simp only [hne, if_true]
      split
      · exact ⟨fun e h => (by cases h), fun si h => (by cases h)⟩
      · exact ⟨ih1, ih2'⟩
    | sect si =>
      have U := unk si rfl
      cases key with
      | none => exact U
      | some k =>
        simp only
        split
        · split
          · repeat' split
            all_goals first
              | exact err_res _ _ (plainErr_ni _)
              | exact ok_res _ _ ⟨_, List.mem_cons_self⟩
          · exact ⟨ih1, ih2'⟩
        · exact U

theorem getsectioninfo_ok (s : Schema) (t : SType) (ht : TOK t) (ty : Str) (nm : Option Str) :
    (∀ e, getsectioninfo s t ty nm ≠ .error (.internal e)) ∧
    (∀ si, getsectioninfo s t ty nm = .ok si → ∃ k, (k, Info.sect si) ∈ t.children) :=
  gsi_go s ty nm t.children ht.key

/-! ### option bags -/

def mkBagStep (conv : Conv) (t : SType) (b : Bag) (it : OptItem) : M Bag :=
  match it.path with
  | [] => .error (.internal "IndexError")
  | [k] =>
    match conv.key t.keytype k with
    | .ok name =>
      let kp := if b.keypairs.any (·.1 == name)
        then b.keypairs.map (fun p => if p.1 == name then (p.1, p.2 ++ [it.val]) else p)
        else b.keypairs ++ [(name, [it.val])]
      .ok { b with keypairs := kp }
    | .error e => .error (convFail e (some k) { line := -1, url := some "<command-line option>".toList } "override key")
  | _ => .ok { b with sectitems := b.sectitems ++ [it] }

theorem mkBag_eq (conv : Conv) (t : SType) (items : List OptItem) :
    mkBag conv t items = items.foldlM (mkBagStep conv t) { keypairs := [], sectitems := [] } := rfl

theorem mkBagStep_ok (conv : Conv) (t : SType) (b : Bag) (it : OptItem) (hb : BagOK b) (hit : it.path ≠ []) :
    (∀ e, mkBagStep conv t b it ≠ .error (.internal e)) ∧ (∀ b', mkBagStep conv t b it = .ok b' → BagOK b') := by
  unfold mkBagStep
  split
  · rename_i h; exact absurd h hit
  · split
    · exact ⟨fun e h => (by cases h), fun b' h => (by cases h; exact hb)⟩
    · exact err_res _ _ (convFail_no_internal _ _ _ _)
  · rename_i h1 h2
    refine ⟨fun e h => (by cases h), fun b' h => ?_⟩
    cases h
    intro x hx
    simp only [List.mem_append, List.mem_singleton] at hx
    rcases hx with hx | rfl
    · exact hb x hx
    · match hp : x.path with
      | [] => exact absurd hp hit
      | [k] => exact absurd hp (h2 k)
      | a :: b :: r => simp

theorem mkBag_ok (conv : Conv) (t : SType) (items : List OptItem) (hit : ∀ it ∈ items, it.path ≠ []) :
    (∀ e, mkBag conv t items ≠ .error (.internal e)) ∧ (∀ b, mkBag conv t items = .ok b → BagOK b) := by
  rw [mkBag_eq]
  apply foldlM_inv (mkBagStep conv t) BagOK
  · intro x hx; cases hx
  · intro b a ha hb
    exact mkBagStep_ok conv t b a hb (hit a ha)

def bsiStep (ty : Str) (name : Option Str) (acc : List OptItem × List OptItem) (it : OptItem) :
    M (List OptItem × List OptItem) :=
  match it.path with
  | [] => .error (.internal "IndexError")
  | p0 :: more =>
    match DT.basicKey p0 with
    | .error _ => .error (.cfg { kind := .syntax, line := some (-1), url := some "<command-line option>".toList, tag := "override basic-key" })
    | .ok bk =>
      if name.isSome && some (lower p0) == name then .ok (acc.1 ++ [{ it with path := more }], acc.2)
      else if bk == ty then .ok (acc.1 ++ [{ it with path := more }], acc.2)
      else .ok (acc.1, acc.2 ++ [it])

theorem bagSectionInfo_eq (conv : Conv) (s : Schema) (b : Bag) (ty : Str) (name : Option Str) :
    bagSectionInfo conv s b ty name =
      (b.sectitems.foldlM (bsiStep ty name) ([], [])) >>= fun x =>
        match x with
        | (l, r) =>
          if l.isEmpty then pure (b, none)
          else
            match s.gettype ty with
            | some (.concrete t) => (mkBag conv t l) >>= fun child => pure ({ b with sectitems := r }, some child)
            | none => throw (Fail.cfg { kind := .schema, tag := "unknown type name" })
            | _ => throw (Fail.internal "AttributeError") := rfl

def bsiInv (acc : List OptItem × List OptItem) : Prop :=
  (∀ x ∈ acc.1, x.path ≠ []) ∧ (∀ x ∈ acc.2, 2 ≤ x.path.length)

theorem bsiStep_ok (ty : Str) (name : Option Str) (acc : List OptItem × List OptItem) (it : OptItem)
    (hacc : bsiInv acc) (hit : 2 ≤ it.path.length) :
    (∀ e, bsiStep ty name acc it ≠ .error (.internal e)) ∧ (∀ acc', bsiStep ty name acc it = .ok acc' → bsiInv acc') := by
  unfold bsiStep
  split
  · rename_i h; rw [h] at hit; simp at hit
  · rename_i p0 more hp
    have hmore : more ≠ [] := by
      intro h; rw [hp, h] at hit; simp at hit
    have hL : bsiInv (acc.1 ++ [{ it with path := more }], acc.2) := by
      refine ⟨?_, hacc.2⟩
      intro x hx
      simp only [List.mem_append, List.mem_singleton] at hx
      rcases hx with hx | rfl
      · exact hacc.1 x hx
      · exact hmore
    have hR : bsiInv (acc.1, acc.2 ++ [it]) := by
      refine ⟨hacc.1, ?_⟩
      intro x hx
      simp only [List.mem_append, List.mem_singleton] at hx
      rcases hx with hx | rfl
      · exact hacc.2 x hx
      · exact hit
    split
    · exact ⟨fun e h => (by cases h), fun b' h => (by cases h)⟩
    · split
      · exact ⟨fun e h => (by cases h), fun b' h => (by cases h; exact hL)⟩
      · split
        · exact ⟨fun e h => (by cases h), fun b' h => (by cases h; exact hL)⟩
        · exact ⟨fun e h => (by cases h), fun b' h => (by cases h; exact hR)⟩

theorem bagSectionInfo_ok (conv : Conv) (s : Schema) (b : Bag) (ty : Str) (name : Option Str) (hb : BagOK b)
    (hty : s.gettype ty = none ∨ ∃ t, s.gettype ty = some (.concrete t)) :
    (∀ e, bagSectionInfo conv s b ty name ≠ .error (.internal e)) ∧
    (∀ b' cb, bagSectionInfo conv s b ty name = .ok (b', cb) → BagOK b' ∧ ∀ c, cb = some c → BagOK c) := by
  rw [bagSectionInfo_eq]
  obtain ⟨F1, F2⟩ := foldlM_inv (bsiStep ty name) bsiInv b.sectitems ([], [])
    ⟨fun x hx => (by cases hx), fun x hx => (by cases hx)⟩
    (fun acc a ha hacc => bsiStep_ok ty name acc a hacc (hb a ha))
  cases hf : b.sectitems.foldlM (bsiStep ty name) ([], []) with
  | error x =>
    exact ⟨fun e h => (by cases h; exact F1 e hf), fun b' cb h => (by cases h)⟩
  | ok lr =>
    obtain ⟨l, r⟩ := lr
    have hinv := F2 _ hf
    simp only [bind, Except.bind]
    split
    · refine ⟨fun e h => (by cases h), fun b' cb h => ?_⟩
      cases h
      exact ⟨hb, fun c hc => (by cases hc)⟩
    · rcases hty with ht | ⟨t, ht⟩
      · rw [ht]
        exact ⟨fun e h => (by cases h), fun b' cb h => (by cases h)⟩
      rw [ht]
      simp only
      obtain ⟨G1, G2⟩ := mkBag_ok conv t l hinv.1
      cases hm : mkBag conv t l with
      | error x =>
        exact ⟨fun e h => (by cases h; exact G1 e hm), fun b' cb h => (by cases h)⟩
      | ok child =>
        refine ⟨fun e h => (by cases h), fun b' cb h => ?_⟩
        cases h
        refine ⟨hinv.2, fun c hc => ?_⟩
        cases hc
        exact G2 _ hm

/-! ### `addValue` -/

theorem search_mem (rk : Str) : ∀ (l : List (Option Str × Info)) (arb x : Option (Option Str × Info)),
    addValueCore.search rk l arb = x → ∀ y, x = some y → y ∈ l ∨ arb = some y := by
  intro l
  induction l with
  | nil =>
    intro arb x h y hy
    rw [addValueCore.search] at h
    exact .inr (h.trans hy)
  | cons c rest ih =>
    intro arb x h y hy
    obtain ⟨k, ci⟩ := c
    rw [addValueCore.search] at h
    split at h
    · subst h; cases hy
      exact .inl List.mem_cons_self
    · split at h
      · rcases ih _ _ h y hy with h' | h'
        · exact .inl (List.mem_cons_of_mem _ h')
        · cases h'; exact .inl List.mem_cons_self
      · rcases ih _ _ h y hy with h' | h'
        · exact .inl (List.mem_cons_of_mem _ h')
        · exact .inr h'

/-- what stays the same when a matcher receives a value or a section -/
def SameHead (m m' : Matcher) : Prop := m'.ty = m.ty ∧ m'.name = m.name ∧ m'.bag = m.bag

theorem ni_addValueCore_ok (s : Schema) (m : Matcher) (hm : MOK s m) (key rk v : Str) (pos : Pos) :
    (∀ e, addValueCore m key rk v pos ≠ .error (.internal e)) ∧
    (∀ m', addValueCore m key rk v pos = .ok m' → MOK s m' ∧ SameHead m m') := by
  unfold addValueCore
  split
  · exact err_res _ _ (plainErr_ni _)
  · rename_i k ci hs
    have hmem : (k, ci) ∈ m.ty.children := by
      rcases search_mem rk _ _ _ hs _ rfl with h | h
      · exact h
      · cases h
    split
    · exact err_res _ _ (plainErr_ni _)
    · rename_i ki
      obtain ⟨hk, _⟩ := hm.tok.key _ hmem ki rfl
      simp only at hk
      subst hk
      obtain ⟨sl, hsl, hf⟩ := hm.fits _ hmem
      have hsl' : getSlot m ki.attr = some sl := hsl
      have R : ∀ sl', slotFits s (.key ki) sl' →
          (∀ e, (Except.ok (setSlot m ki.attr sl') : M Matcher) ≠ .error (.internal e)) ∧
          (∀ m', (Except.ok (setSlot m ki.attr sl') : M Matcher) = .ok m' → MOK s m' ∧ SameHead m m') :=
        fun sl' hf' => ok_res _ _ ⟨hm.setSlot (some ki.name, .key ki) hmem sl' hf', rfl, rfl, rfl⟩
      dsimp only
      cases sl with
      | none =>
        rw [hsl']
        obtain ⟨hp, hmu⟩ := hf
        have hArb : (some ki.name == some ['+']) = false := by simpa using hp
        simp only [hArb, hmu, Bool.false_eq_true, if_false]
        exact R _ ⟨hp, hmu⟩
      | one x =>
        rw [hsl']
        obtain ⟨hp, hmu⟩ := hf
        have hArb : (some ki.name == some ['+']) = false := by simpa using hp
        simp only [hArb, hmu, Bool.not_false, if_true]
        exact err_res _ _ (plainErr_ni _)
      | many vs =>
        rw [hsl']
        exact R _ hf
      | map mp =>
        rw [hsl']
        dsimp only
        split
        · exact err_res _ _ (plainErr_ni _)
        · exact R _ hf
      | mmap mp =>
        rw [hsl']
        dsimp only
        split
        · exact R _ hf
        · exact R _ hf
      | sect x => exact hf.elim
      | sects x => exact hf.elim
      | done x => exact hf.elim

theorem addValue_ok (s : Schema) (conv : Conv) (m : Matcher) (hm : MOK s m) (key v : Str) (pos : Pos) :
    (∀ e, addValue conv m key v pos ≠ .error (.internal e)) ∧
    (∀ m', addValue conv m key v pos = .ok m' → MOK s m' ∧ SameHead m m') := by
  unfold addValue
  split
  · exact err_res _ _ (convFail_no_internal _ _ _ _)
  · split
    · split
      · exact ok_res _ _ ⟨hm, rfl, rfl, rfl⟩
      · exact ni_addValueCore_ok s m hm _ _ _ _
    · exact ni_addValueCore_ok s m hm _ _ _ _

/-! ### `finish_optionbag` -/

def fbInner (conv : Conv) (k : Str) (m : Matcher) (v : Str) : M Matcher :=
  match conv.key m.ty.keytype k with
  | .error e => .error (convFail e (some k) { line := -1, url := some "<command-line option>".toList } "key")
  | .ok rk => addValueCore m k rk v { line := -1, url := some "<command-line option>".toList }

theorem finishBag_ok (s : Schema) (conv : Conv) (m : Matcher) (hm : MOK s m) :
    (∀ e, finishBag conv m ≠ .error (.internal e)) ∧
    (∀ m', finishBag conv m = .ok m' → MOK s m' ∧ m'.ty = m.ty ∧ m'.name = m.name) := by
  unfold finishBag
  split
  · exact ok_res _ _ ⟨hm, rfl, rfl⟩
  · rename_i b hb
    let P : Matcher → Prop := fun m' => MOK s m' ∧ SameHead m m'
    have hinner : ∀ (k : Str) (vs : List Str) (m1 : Matcher), P m1 →
        (∀ e, vs.foldlM (fbInner conv k) m1 ≠ .error (.internal e)) ∧
        (∀ m', vs.foldlM (fbInner conv k) m1 = .ok m' → P m') := by
      intro k vs m1 hm1
      apply foldlM_inv _ P vs m1 hm1
      intro m2 v _ hm2
      unfold fbInner
      split
      · exact err_res _ _ (convFail_no_internal _ _ _ _)
      · obtain ⟨A1, A2⟩ := ni_addValueCore_ok s m2 hm2.1 k _ v { line := -1, url := some "<command-line option>".toList }
        refine ⟨A1, fun m' h => ?_⟩
        obtain ⟨B1, B2⟩ := A2 m' h
        exact ⟨B1, B2.1.trans hm2.2.1, B2.2.1.trans hm2.2.2.1, B2.2.2.trans hm2.2.2.2⟩
    obtain ⟨F1, F2⟩ := foldlM_inv (fun (m : Matcher) (kv : Str × List Str) => kv.2.foldlM (fbInner conv kv.1) m)
      P b.keypairs m ⟨hm, rfl, rfl, rfl⟩ (fun m1 kv _ hm1 => hinner kv.1 kv.2 m1 hm1)
    simp only [bind, Except.bind, pure, Except.pure, throw, throwThe, MonadExceptOf.throw]
    split
    · rename_i x hx
      exact err_res _ _ (fun e h => F1 e (by rw [← h]; exact hx))
    · rename_i m1 hm1
      obtain ⟨G1, G2⟩ := F2 m1 hm1
      split
      · exact err_res _ _ (plainErr_ni _)
      · refine ok_res _ _ ⟨⟨G1.tok, G1.fits, fun b hb => (by cases hb)⟩, G2.1, G2.2.1⟩

/-! ### `finish`: occurrence pass, conversion pass -/

theorem finishChild_ok (s : Schema) (ci : Info) (slot : Slot) (hf : slotFits s ci slot)
    (hd : ∀ ki d, ci = .key ki → ki.name ≠ ['+'] → ki.multi = false → ki.dflt = .one d → ki.minOccurs = 0) :
    (∀ e, finishChild ci slot ≠ .error (.internal e)) ∧ (∀ sl', finishChild ci slot = .ok sl' → slotFits s ci sl') := by
  cases ci with
  | key ki =>
    unfold finishChild
    dsimp only
    cases slot with
    | mmap mp =>
      obtain ⟨hp, hm⟩ := hf
      simp only [hp, beq_self_eq_true, if_true]
      repeat' split
      all_goals first
        | exact err_res _ _ (plainErr_ni _)
        | exact ok_res _ _ ⟨hp, hm⟩
    | map mp =>
      obtain ⟨hp, hm⟩ := hf
      simp only [hp, beq_self_eq_true, if_true]
      split
      · exact err_res _ _ (plainErr_ni _)
      · exact ok_res _ _ ⟨hp, hm⟩
    | many vs =>
      obtain ⟨hp, hm⟩ := hf
      have hne : (ki.name == ['+']) = false := by simpa using hp
      simp only [hne, hm, Bool.false_eq_true, if_false, if_true]
      repeat' split
      all_goals first
        | exact err_res _ _ (plainErr_ni _)
        | exact ok_res _ _ ⟨hp, hm⟩
    | one v =>
      obtain ⟨hp, hm⟩ := hf
      have hne : (ki.name == ['+']) = false := by simpa using hp
      simp only [hne, hm, Bool.false_eq_true, if_false]
      exact ok_res _ _ ⟨hp, hm⟩
    | none =>
      obtain ⟨hp, hm⟩ := hf
      have hne : (ki.name == ['+']) = false := by simpa using hp
      simp only [hne, hm, Bool.false_eq_true, if_false]
      split
      · rename_i hmin
        split
        · rename_i d hdf
          have := hd ki d rfl hp hm hdf
          omega
        · exact err_res _ _ (plainErr_ni _)
      · split
        · exact ok_res _ _ ⟨hp, hm⟩
        · exact ok_res _ _ ⟨hp, hm⟩
    | sect v => exact hf.elim
    | sects v => exact hf.elim
    | done v => exact hf.elim
  | sect si =>
    unfold finishChild
    dsimp only
    cases slot with
    | sects vs =>
      simp only [hf.1, if_true]
      split
      · exact err_res _ _ (plainErr_ni _)
      · exact ok_res _ _ hf
    | sect v =>
      simp only [hf.1, Bool.false_eq_true, if_false]
      exact ok_res _ _ hf
    | none =>
      have hm : si.multi = false := hf
      simp only [hm, Bool.false_eq_true, if_false]
      split
      · exact err_res _ _ (plainErr_ni _)
      · exact ok_res _ _ hm
    | one v => exact hf.elim
    | many v => exact hf.elim
    | map v => exact hf.elim
    | mmap v => exact hf.elim
    | done v => exact hf.elim

theorem convVI_no_internal (conv : Conv) (dt : Str) (vi : VI) (e : String) : convVI conv dt vi ≠ .error (.internal e) := by
  unfold convVI
  split
  · intro h; cases h
  · intro h
    injection h with h
    exact convFail_no_internal _ _ _ _ e h

theorem sectConvF_no_internal (conv : Conv) (s : Schema) (v : Val) (hv : sectValOK s v) (e : String) :
    sectConvF conv s v ≠ .error (.internal e) := by
  unfold sectConvF
  split
  · obtain ⟨t, ht⟩ := hv
    rw [ht]
    dsimp only
    split
    · intro h; cases h
    · intro h
      injection h with h
      exact convFail_no_internal _ _ _ _ e h
  · intro h; cases h

theorem constructChild_no_internal (conv : Conv) (s : Schema) (ci : Info) (slot : Slot) (hf : slotFits s ci slot)
    (e : String) : constructChild conv s ci slot ≠ .error (.internal e) := by
  cases ci with
  | sect si =>
    cases slot with
    | sects vs =>
      rw [constructChild_sects]
      intro h
      exact mapM_no_internal _ vs (fun v hv e => sectConvF_no_internal conv s v (hf.2 v hv) e) e (map_no_internal _ _ _ h)
    | sect v =>
      rw [constructChild_sect]
      exact sectConvF_no_internal conv s v hf.2 e
    | none => intro h; cases h
    | one v => exact hf.elim
    | many v => exact hf.elim
    | map v => exact hf.elim
    | mmap v => exact hf.elim
    | done v => exact hf.elim
  | key ki =>
    cases slot with
    | mmap mp =>
      intro h
      have h' : (mp.mapM fun (kv : Str × List VI) =>
          (kv.2.mapM (convVI conv ki.dt)).map fun r => (kv.1, Val.list r)) = .error (.internal e) :=
        map_no_internal _ Val.map _ h
      refine mapM_no_internal _ mp (fun kv _ e h2 => ?_) e h'
      exact mapM_no_internal _ kv.2 (fun vi _ e => convVI_no_internal conv ki.dt vi e) e (map_no_internal _ _ _ h2)
    | many vs =>
      intro h
      have h' : vs.mapM (convVI conv ki.dt) = .error (.internal e) := map_no_internal _ Val.list _ h
      exact mapM_no_internal _ vs (fun vi _ e => convVI_no_internal conv ki.dt vi e) e h'
    | map mp =>
      intro h
      have h' := map_no_internal _ Val.map _ h
      refine mapM_no_internal _ _ (fun kv _ e h2 => ?_) e h'
      exact convVI_no_internal conv ki.dt kv.2 e (map_no_internal _ _ _ h2)
    | one vi => exact convVI_no_internal conv ki.dt vi e
    | none => intro h; cases h
    | sect v => exact hf.elim
    | sects v => exact hf.elim
    | done v => exact hf.elim

/-! ### `finishMatcher` -/

theorem finishMatcher_eq_bind (conv : Conv) (s : Schema) (m0 : Matcher) :
    finishMatcher conv s m0 = finishBag conv m0 >>= finishMatcher' conv s := rfl

theorem ni_fin1_ok (s : Schema) (m : Matcher) (hm : MOK s m) (c : Option Str × Info) (hc : c ∈ m.ty.children) :
    (∀ e, fin1 m c ≠ .error (.internal e)) ∧ (∀ p, fin1 m c = .ok p → slotFits s p.1 p.2) := by
  unfold fin1
  obtain ⟨sl, hsl, hf⟩ := hm.fits c hc
  rw [hsl]
  dsimp only
  obtain ⟨A1, A2⟩ := finishChild_ok s c.2 sl hf (fun ki d hki => hm.tok.dflt c hc ki d hki)
  constructor
  · intro e h
    exact A1 e (map_no_internal _ _ _ h)
  · intro p h
    obtain ⟨r, hr, rfl⟩ := map_ok_inv h
    exact A2 r hr

theorem finishMatcher'_ok (conv : Conv) (s : Schema) (m : Matcher) (hm : MOK s m) :
    (∀ e, finishMatcher' conv s m ≠ .error (.internal e)) ∧
    (∀ v hs, finishMatcher' conv s m = .ok (v, hs) → ∃ attrs, v = .sect (m.ty.name.getD []) m.name attrs) := by
  unfold finishMatcher'
  have S1 := mapM_no_internal (fin1 m) m.ty.children (fun c hc => (ni_fin1_ok s m hm c hc).1)
  cases h1 : m.ty.children.mapM (fin1 m) with
  | error x =>
    exact ⟨fun e h => (by cases h; exact S1 e h1), fun v hs h => (by cases h)⟩
  | ok slots =>
    simp only [bind, Except.bind]
    have hslots : ∀ p ∈ slots, slotFits s p.1 p.2 := by
      intro p hp
      obtain ⟨c, hc, hfc⟩ := mapM_ok_mem (fin1 m) _ _ h1 p hp
      exact (ni_fin1_ok s m hm c hc).2 p hfc
    have S2 := mapM_no_internal (fin2 conv s) slots (fun p hp e h => by
      unfold fin2 at h
      exact constructChild_no_internal conv s p.1 p.2 (hslots p hp) e (map_no_internal _ _ _ h))
    cases h2 : slots.mapM (fin2 conv s) with
    | error x =>
      exact ⟨fun e h => (by cases h; exact S2 e h2), fun v hs h => (by cases h)⟩
    | ok vals =>
      refine ⟨fun e h => (by cases h), fun v hs h => ?_⟩
      cases h
      exact ⟨_, rfl⟩

theorem finishMatcher_ok (conv : Conv) (s : Schema) (m : Matcher) (hm : MOK s m) :
    (∀ e, finishMatcher conv s m ≠ .error (.internal e)) ∧
    (∀ v hs, finishMatcher conv s m = .ok (v, hs) → ∃ attrs, v = .sect (m.ty.name.getD []) m.name attrs) := by
  rw [finishMatcher_eq_bind]
  obtain ⟨A1, A2⟩ := finishBag_ok s conv m hm
  cases hb : finishBag conv m with
  | error x =>
    exact ⟨fun e h => (by cases h; exact A1 e hb), fun v hs h => (by cases h)⟩
  | ok m1 =>
    obtain ⟨hm1, hty, hnm⟩ := A2 m1 hb
    simp only [bind, Except.bind]
    rw [← hty, ← hnm]
    exact finishMatcher'_ok conv s m1 hm1

/-! ### `addSection` -/

theorem ni_addSection_ok (s : Schema) (m : Matcher) (hm : MOK s m) (ty : Str) (name : Option Str) (v : Val)
    (hv : sectValOK s v) :
    (∀ e, addSection s m ty name v ≠ .error (.internal e)) ∧
    (∀ m', addSection s m ty name v = .ok m' → MOK s m' ∧ SameHead m m') := by
  have key : ∀ m1 : Matcher, MOK s m1 → SameHead m m1 →
      (∀ e, (getsectioninfo s m1.ty ty name >>= fun ci =>
          match getSlot m1 ci.attr with
          | Option.none => throw (Fail.internal "KeyError")
          | some (.sects vs) => if ci.multi then pure (setSlot m1 ci.attr (.sects (vs ++ [v]))) else throw (Fail.internal "AttributeError")
          | some .none => if ci.multi then throw (Fail.internal "AttributeError") else pure (setSlot m1 ci.attr (.sect v))
          | some _ => if ci.multi then throw (Fail.internal "AttributeError") else throw (plainErr "too many instances of section"))
        ≠ .error (.internal e)) ∧
      (∀ m', (getsectioninfo s m1.ty ty name >>= fun ci =>
          match getSlot m1 ci.attr with
          | Option.none => throw (Fail.internal "KeyError")
          | some (.sects vs) => if ci.multi then pure (setSlot m1 ci.attr (.sects (vs ++ [v]))) else throw (Fail.internal "AttributeError")
          | some .none => if ci.multi then throw (Fail.internal "AttributeError") else pure (setSlot m1 ci.attr (.sect v))
          | some _ => if ci.multi then throw (Fail.internal "AttributeError") else throw (plainErr "too many instances of section"))
        = .ok m' → MOK s m' ∧ SameHead m m') := by
    intro m1 hm1 hsame
    obtain ⟨G1, G2⟩ := getsectioninfo_ok s m1.ty hm1.tok ty name
    cases hg : getsectioninfo s m1.ty ty name with
    | error x => exact err_res _ _ (fun e h => G1 e (by rw [← h]; exact hg))
    | ok ci =>
      obtain ⟨k, hk⟩ := G2 ci hg
      obtain ⟨sl, hsl, hf⟩ := hm1.fits _ hk
      have hsl' : getSlot m1 ci.attr = some sl := hsl
      have R : ∀ sl', slotFits s (.sect ci) sl' →
          (∀ e, (Except.ok (setSlot m1 ci.attr sl') : M Matcher) ≠ .error (.internal e)) ∧
          (∀ m', (Except.ok (setSlot m1 ci.attr sl') : M Matcher) = .ok m' → MOK s m' ∧ SameHead m m') :=
        fun sl' hf' => ok_res _ _ ⟨hm1.setSlot (k, .sect ci) hk sl' hf', hsame⟩
      simp only [bind, Except.bind, pure, Except.pure, throw, throwThe, MonadExceptOf.throw]
      rw [hsl']
      cases sl with
      | sects vs =>
        have hmu : ci.multi = true := hf.1
        simp only [hmu, if_true]
        refine R _ ⟨hmu, fun x hx => ?_⟩
        simp only [List.mem_append, List.mem_singleton] at hx
        rcases hx with hx | rfl
        · exact hf.2 x hx
        · exact hv
      | none =>
        have hmu : ci.multi = false := hf
        simp only [hmu, Bool.false_eq_true, if_false]
        exact R _ ⟨hmu, hv⟩
      | sect x =>
        have hmu : ci.multi = false := hf.1
        simp only [hmu, Bool.false_eq_true, if_false]
        exact err_res _ _ (plainErr_ni _)
      | one x => exact hf.elim
      | many x => exact hf.elim
      | map x => exact hf.elim
      | mmap x => exact hf.elim
      | done x => exact hf.elim
  unfold addSection
  cases name with
  | none => exact key m hm ⟨rfl, rfl, rfl⟩
  | some n =>
    dsimp only
    split
    · split
      · exact err_res _ _ (plainErr_ni _)
      · exact key { m with used := m.used ++ [n] } ⟨hm.tok, hm.fits, hm.bag⟩ ⟨rfl, rfl, rfl⟩
    · exact key m hm ⟨rfl, rfl, rfl⟩

end ZCV.Cfg
