import ZCV.Lemmas.ImportLoadGrow
/-!
`schemaOK` is preserved by `%import` of a component whose own types are well-formed with respect to the extended
schema (`compOK`): the type table after the import consists of the old entries and the component's entries, each with
at most a longer implementer list.
-/
namespace ZCV.Conf
open ZCV ZCV.Cfg

/-- the per-entry check of `schemaOK` -/
def entryOK (s : Schema) (p : Str × TypeEntry) : Bool :=
  match p.2 with
  | .concrete t => t.name == some p.1 && stypeOK s t
  | .abstract_ n' _ => n' == p.1

/-- the component's types are well-formed with respect to the schema `s'` (the schema AFTER the import): stored under
    their own names, children well-shaped, slot types known to `s'` -/
def compOK (s' : Schema) (types : List (Str × TypeEntry)) : Bool := types.all (entryOK s')

theorem schemaOK_iff (s : Schema) :
    schemaOK s = true ↔ stypeOK s s.top = true ∧ s.top.name = none ∧ ∀ p ∈ s.types, entryOK s p = true := by
  unfold schemaOK
  simp only [Bool.and_eq_true, List.all_eq_true, beq_iff_eq]
  constructor
  · rintro ⟨⟨h1, h2⟩, h3⟩
    refine ⟨h1, h2, ?_⟩
    intro p hp
    have := h3 p hp
    obtain ⟨n, te⟩ := p
    unfold entryOK
    cases te with
    | concrete t => simpa using this
    | abstract_ n' subs => simpa using this
  · rintro ⟨h1, h2, h3⟩
    refine ⟨⟨h1, h2⟩, ?_⟩
    intro p hp
    have := h3 p hp
    obtain ⟨n, te⟩ := p
    unfold entryOK at this
    cases te with
    | concrete t => simpa using this
    | abstract_ n' subs => simpa using this

/-- `q` is `p` with, at most, a longer implementer list -/
def EntRel (p q : Str × TypeEntry) : Prop :=
  q.1 = p.1 ∧
    match p.2 with
    | .concrete t => q.2 = .concrete t
    | .abstract_ n _ => ∃ subs', q.2 = .abstract_ n subs'

theorem EntRel.refl (p : Str × TypeEntry) : EntRel p p := by
  refine ⟨rfl, ?_⟩
  cases h : p.2 with
  | concrete t => rfl
  | abstract_ n subs => exact ⟨subs, rfl⟩

theorem EntRel.trans {p q r : Str × TypeEntry} (h1 : EntRel p q) (h2 : EntRel q r) : EntRel p r := by
  obtain ⟨a1, b1⟩ := h1
  obtain ⟨a2, b2⟩ := h2
  refine ⟨a2.trans a1, ?_⟩
  cases hp : p.2 with
  | concrete t =>
    rw [hp] at b1
    simp only at b1
    rw [b1] at b2
    exact b2
  | abstract_ n subs =>
    rw [hp] at b1
    obtain ⟨s1, hs1⟩ := b1
    rw [hs1] at b2
    exact b2

theorem EntRel_regEntry (ia : Str × Str) (p : Str × TypeEntry) : EntRel p (regEntry ia p) := by
  unfold regEntry
  cases hp : p.2 with
  | concrete t => simp only; exact EntRel.refl p
  | abstract_ n subs =>
    simp only
    split
    · refine ⟨rfl, ?_⟩
      rw [hp]
      exact ⟨_, rfl⟩
    · exact EntRel.refl p

/-- every entry of `L'` descends from an entry of `L` -/
def Desc (L L' : List (Str × TypeEntry)) : Prop := ∀ q ∈ L', ∃ p ∈ L, EntRel p q

theorem Desc.refl (L : List (Str × TypeEntry)) : Desc L L := fun q hq => ⟨q, hq, EntRel.refl q⟩

theorem Desc.trans {A B C : List (Str × TypeEntry)} (h1 : Desc A B) (h2 : Desc B C) : Desc A C := by
  intro r hr
  obtain ⟨q, hq, hqr⟩ := h2 r hr
  obtain ⟨p, hp, hpq⟩ := h1 q hq
  exact ⟨p, hp, hpq.trans hqr⟩

theorem Desc_regImpl (sc : Schema) (ia : Str × Str) : Desc sc.types (regImpl sc ia).types := by
  intro q hq
  unfold regImpl at hq
  obtain ⟨p, hp, rfl⟩ := List.mem_map.mp hq
  exact ⟨p, hp, EntRel_regEntry ia p⟩

theorem Desc_regAll (impls : List (Str × Str)) (n : Str) (sc : Schema) : Desc sc.types (regAll impls n sc).types := by
  unfold regAll
  generalize impls = l
  induction l generalizing sc with
  | nil => exact Desc.refl _
  | cons ia rest ih =>
    rw [List.foldl_cons]
    split
    · exact (Desc_regImpl sc ia).trans (ih _)
    · exact ih _

theorem Desc_fold (impls : List (Str × Str)) : ∀ (types : List (Str × TypeEntry)) (sc sc' : Schema),
    types.foldlM (addStep impls) sc = .ok sc' → Desc (sc.types ++ types) sc'.types := by
  intro types
  induction types with
  | nil =>
    intro sc sc' h
    simp only [List.foldlM_nil, pure, Except.pure, Except.ok.injEq] at h
    subst h
    rw [List.append_nil]
    exact Desc.refl _
  | cons te rest ih =>
    intro sc sc' h
    rw [List.foldlM_cons] at h
    obtain ⟨sc1, h1, h2⟩ := bind_ok_inv h
    obtain ⟨_, rfl⟩ := addStep_ok impls sc sc1 te h1
    have hstep : Desc (sc.types ++ [te]) (regAll impls te.1 (addEntry sc te)).types := Desc_regAll impls te.1 _
    have hrest := ih _ sc' h2
    refine Desc.trans ?_ hrest
    intro q hq
    rcases List.mem_append.mp hq with hq | hq
    · obtain ⟨p, hp, hpq⟩ := hstep q hq
      refine ⟨p, ?_, hpq⟩
      rcases List.mem_append.mp hp with hp | hp
      · exact List.mem_append_left _ hp
      · exact List.mem_append_right _ (by simp only [List.mem_singleton] at hp; rw [hp]; exact List.mem_cons_self)
    · exact ⟨q, List.mem_append_right _ (List.mem_cons_of_mem _ hq), EntRel.refl q⟩

theorem known_grow {s s' : Schema} (hg : Grow s s') (x : Str) (h : (s.gettype x).isSome = true) :
    (s'.gettype x).isSome = true := by
  rcases gettype_grow hg x h with ⟨t, _, h2⟩ | ⟨_, h2⟩
  · rw [h2]; rfl
  · unfold isAbstract at h2
    split at h2
    · rename_i e; rw [e]; rfl
    · cases h2

theorem stypeOK_mono {s s' : Schema} (hk : ∀ x, (s.gettype x).isSome = true → (s'.gettype x).isSome = true)
    (t : SType) (h : stypeOK s t = true) : stypeOK s' t = true := by
  unfold stypeOK at h ⊢
  simp only [Bool.and_eq_true, List.all_eq_true] at h ⊢
  refine ⟨h.1, ?_⟩
  intro c hc
  have := h.2 c hc
  cases hi : c.2 with
  | key ki => rw [hi] at this; exact this
  | sect si =>
    rw [hi] at this
    simp only [Bool.and_eq_true] at this ⊢
    exact ⟨this.1, hk _ this.2⟩

theorem entryOK_desc {s s' : Schema} (hk : ∀ x, (s.gettype x).isSome = true → (s'.gettype x).isSome = true)
    (p q : Str × TypeEntry) (hpq : EntRel p q) (h : entryOK s p = true) : entryOK s' q = true := by
  obtain ⟨h1, h2⟩ := hpq
  unfold entryOK at h ⊢
  cases hp : p.2 with
  | concrete t =>
    rw [hp] at h h2
    simp only at h2
    rw [h2, h1]
    simp only [Bool.and_eq_true] at h ⊢
    exact ⟨h.1, stypeOK_mono hk t h.2⟩
  | abstract_ n subs =>
    rw [hp] at h h2
    obtain ⟨subs', hs'⟩ := h2
    rw [hs', h1]
    exact h

/-- **`schemaOK` after an `%import`**: a well-formed schema extended by a component whose types are well-formed with
    respect to the extended schema is well-formed -/
theorem schemaOK_extend (s s' : Schema) (url : Str) (types : List (Str × TypeEntry)) (impls : List (Str × Str))
    (hs : schemaOK s = true) (he : extend s (.component url types impls) = some s') (hc : compOK s' types = true) :
    schemaOK s' = true := by
  have hg := Grow_of_extend s s' _ he
  rw [extend_component] at he
  split at he
  · cases he; exact hs
  · rw [← fold_toOption, toOption_eq_some] at he
    have hd := Desc_fold impls types _ _ he
    rw [schemaOK_iff] at hs ⊢
    obtain ⟨h1, h2, h3⟩ := hs
    refine ⟨?_, by rw [hg.top]; exact h2, ?_⟩
    · rw [hg.top]
      exact stypeOK_mono (known_grow hg) _ h1
    · intro q hq
      obtain ⟨p, hp, hpq⟩ := hd q hq
      rcases List.mem_append.mp hp with hp | hp
      · exact entryOK_desc (known_grow hg) p q hpq (h3 p hp)
      · unfold compOK at hc
        rw [List.all_eq_true] at hc
        exact entryOK_desc (fun _ h => h) p q hpq (hc p hp)

/-- every component imported by the text is well-formed with respect to the schema it produces -/
def compsOK (pkgs : Str → Pkg) : Schema → List TopItem → Bool
  | _, [] => true
  | s, .item _ :: r => compsOK pkgs s r
  | s, .imp p :: r =>
    match extend s (pkgs p) with
    | some s' => (match pkgs p with | .component _ types _ => compOK s' types | _ => true) && compsOK pkgs s' r
    | none => true

/-- `importsOK` from the start schema and the components, one by one -/
theorem importsOK_of_compsOK (pkgs : Str → Pkg) : ∀ (tops : List TopItem) (s : Schema), schemaOK s = true →
    compsOK pkgs s tops = true → importsOK pkgs s tops = true
  | [], s, hs, _ => by rw [importsOK]; exact hs
  | .item _ :: r, s, hs, hc => by
    rw [compsOK] at hc
    rw [importsOK]
    exact importsOK_of_compsOK pkgs r s hs hc
  | .imp p :: r, s, hs, hc => by
    rw [compsOK] at hc
    rw [importsOK, Bool.and_eq_true]
    refine ⟨hs, ?_⟩
    cases hx : extend s (pkgs p) with
    | none => rfl
    | some s1 =>
      rw [hx] at hc
      simp only [Bool.and_eq_true] at hc ⊢
      apply importsOK_of_compsOK pkgs r s1 ?_ hc.2
      cases hp : pkgs p with
      | component url types impls =>
        rw [hp] at hx hc
        exact schemaOK_extend s s1 url types impls hs hx hc.1
      | notImportable => rw [hp] at hx; cases hx
      | notPackage => rw [hp] at hx; cases hx
      | noComponent => rw [hp] at hx; cases hx
      | illegalName => rw [hp] at hx; cases hx

end ZCV.Conf
