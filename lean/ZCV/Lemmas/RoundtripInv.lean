import ZCV.Lemmas.RoundtripRun
/-!
What the schema-less loader can produce (C17): every state it goes through holds well-formed sections only,
so a successful load ends in a `WF` tree — provided the environment the `$(NAME)` references consult hands
out clean, non-empty texts (anything else is pasted into values unchanged).
-/
namespace ZCV.Roundtrip
open ZCV ZCV.Cfg ZCV.SubstSpec ZCV.Rx

/-! ### reading a classification backwards -/

theorem takeWhile_all_pred {p : Char → Bool} (s : Str) : ∀ c ∈ s.takeWhile p, p c = true :=
  fun _ hc => mem_takeWhile_pred hc

theorem wordTok_takeWhile (s : Str) (h : s.takeWhile Grammar.isWord ≠ []) : wordTok (s.takeWhile Grammar.isWord) = true := by
  unfold wordTok
  rw [Bool.and_eq_true, List.all_eq_true]
  refine ⟨?_, takeWhile_all_pred s⟩
  cases hs : s.takeWhile Grammar.isWord with
  | nil => exact absurd hs h
  | cons _ _ => rfl

theorem suffix_last {v s : Str} (h : v <:+ s) (hv : v ≠ []) : v.getLast? = s.getLast? := by
  obtain ⟨t, rfl⟩ := h
  exact (getLast?_append_ne t v hv).symm

theorem prefix_head {p s : Str} {a : Char} {p' : Str} (h : p <+: s) (hp : p = a :: p') : ∃ s', s = a :: s' := by
  obtain ⟨t, rfl⟩ := h
  exact ⟨p' ++ t, by rw [hp]; rfl⟩

theorem mem_of_suffix {v s : Str} {a : Char} (h : v <:+ s) (ha : a ∈ v) : a ∈ s := h.subset ha
theorem mem_of_prefix {v s : Str} {a : Char} (h : v <+: s) (ha : a ∈ v) : a ∈ s := h.subset ha

/-- what `keyValue` hands out -/
theorem keyValue_inv {s k : Str} {v? : Option Str} (h : Grammar.keyValue s = some (k, v?)) :
    wordTok k = true ∧ k <+: s ∧
      ∀ v, v? = some v → v ≠ [] ∧ v <:+ s ∧ ∀ c, v.head? = some c → pySpace c = false := by
  unfold Grammar.keyValue at h
  simp only at h
  split at h
  · cases h
  · rename_i hk
    have hpre : s.takeWhile Grammar.isWord <+: s := List.takeWhile_prefix _
    have hsuf : (s.dropWhile Grammar.isWord).dropWhile pySpace <:+ s :=
      (List.dropWhile_suffix _).trans (List.dropWhile_suffix _)
    split at h
    · simp only [Option.some.injEq, Prod.mk.injEq] at h
      obtain ⟨rfl, rfl⟩ := h
      exact ⟨wordTok_takeWhile s hk, hpre, fun v hv => by cases hv⟩
    · rename_i hr
      simp only [Option.some.injEq, Prod.mk.injEq] at h
      obtain ⟨rfl, rfl⟩ := h
      refine ⟨wordTok_takeWhile s hk, hpre, ?_⟩
      intro v hv
      simp only [Option.some.injEq] at hv
      subst hv
      refine ⟨hr, hsuf, ?_⟩
      intro c hc
      cases hd : (s.dropWhile Grammar.isWord).dropWhile pySpace with
      | nil => exact absurd hd hr
      | cons x xs =>
        rw [hd] at hc
        simp only [List.head?_cons, Option.some.injEq] at hc
        rw [← hc]
        exact dropWhile_head_not _ _ _ _ hd

/-- what `header` hands out -/
theorem header_inv {s ty : Str} {nm : Option Str} (h : Grammar.header s = some (ty, nm)) :
    wordTok ty = true ∧ ty <+: s ∧ ∀ n, nm = some n → wordTok n = true := by
  unfold Grammar.header at h
  simp only at h
  have hpre : s.takeWhile Grammar.isWord <+: s := List.takeWhile_prefix _
  split at h
  · cases h
  · rename_i hk
    split at h
    · simp only [Option.some.injEq, Prod.mk.injEq] at h
      obtain ⟨rfl, rfl⟩ := h
      exact ⟨wordTok_takeWhile s hk, hpre, fun n hn => by cases hn⟩
    · split at h
      · cases h
      · split at h
        · cases h
        · rename_i hn
          split at h
          · simp only [Option.some.injEq, Prod.mk.injEq] at h
            obtain ⟨rfl, rfl⟩ := h
            refine ⟨wordTok_takeWhile s hk, hpre, ?_⟩
            intro n hn'
            simp only [Option.some.injEq] at hn'
            subst hn'
            exact wordTok_takeWhile _ hn
          · cases h

theorem strip_last (x : Str) (c : Char) (h : (strip x).getLast? = some c) : pySpace c = false := by
  unfold strip rstrip at h
  rw [List.getLast?_reverse] at h
  cases hd : (lstrip x).reverse.dropWhile pySpace with
  | nil => rw [hd] at h; simp at h
  | cons a t =>
    rw [hd] at h
    simp only [List.head?_cons, Option.some.injEq] at h
    rw [← h]
    exact dropWhile_head_not _ _ _ _ hd

theorem rstrip_prefix (s : Str) : rstrip s <+: s := by
  obtain ⟨w, _, e⟩ := rstrip_decomp s
  exact ⟨w, e.symm⟩

theorem dropLastN_prefix (s : Str) (k : Nat) : dropLastN s k <+: s := List.take_prefix _ _

theorem lower_wordTok {s : Str} (h : wordTok s = true) : wordTok (lower s) = true := by
  have hne := wordTok_ne h
  unfold wordTok at h ⊢
  rw [Bool.and_eq_true] at h ⊢
  refine ⟨?_, lower_all_isWord s h.2⟩
  cases s with
  | nil => exact absurd rfl hne
  | cons _ _ => rfl

theorem lower_tokOK {s : Str} (h : wordTok s = true) : tokOK (lower s) = true := by
  unfold tokOK
  rw [Bool.and_eq_true, lower_wordTok h, lower_idem]
  simp

/-- a data line: the key is a key, the raw value is clean -/
theorem kv_inv {l key raw : Str} (h : lineShape l = .kv key raw) (hn : '\n' ∉ l)
    (hlast : ∀ c, l.getLast? = some c → pySpace c = false) :
    keyOK key = true ∧ cleanVal raw = true := by
  cases l with
  | nil => simp [lineShape] at h
  | cons c t =>
    by_cases h1 : c = '#'
    · subst h1; simp [lineShape] at h
    by_cases h2 : c = '<'
    · subst h2
      unfold lineShape at h
      simp only [List.take_succ_cons, List.take_zero, beq_iff_eq, List.cons.injEq,
        ↓reduceIte, beq_self_eq_true] at h
      repeat' split at h
      all_goals cases h
    by_cases h3 : c = '%'
    · subst h3
      unfold lineShape at h
      simp only [List.take_succ_cons, List.take_zero, beq_iff_eq, List.cons.injEq,
        ↓reduceIte, beq_self_eq_true] at h
      repeat' split at h
      all_goals cases h
    rw [lineShape_data c t h1 h2 h3 hn] at h
    cases hk : Grammar.keyValue (c :: t) with
    | none => rw [hk] at h; cases h
    | some p =>
      obtain ⟨k, v?⟩ := p
      rw [hk] at h
      simp only [LineShape.kv.injEq] at h
      obtain ⟨rfl, hraw⟩ := h
      obtain ⟨hw, hpre, hv⟩ := keyValue_inv hk
      refine ⟨?_, ?_⟩
      · unfold keyOK
        cases hkk : k with
        | nil => rw [hkk] at hw; exact absurd rfl (wordTok_ne hw)
        | cons a k' =>
          obtain ⟨s', hs'⟩ := prefix_head hpre hkk
          simp only [List.cons.injEq] at hs'
          rw [← hkk, hw]
          rw [hkk]
          simp only [Bool.true_and, List.take_succ_cons, List.take_zero, Bool.and_eq_true, bne_iff_ne, ne_eq,
            List.cons.injEq, and_true]
          rw [← hs'.1]
          exact ⟨⟨h1, h2⟩, h3⟩
      · cases v? with
        | none => subst hraw; rfl
        | some v =>
          simp only at hraw
          subst hraw
          obtain ⟨hne, hsuf, hhead⟩ := hv _ rfl
          unfold cleanVal
          simp only [Bool.and_eq_true, Bool.not_eq_true', List.contains_eq_mem, decide_eq_false_iff_not]
          refine ⟨⟨fun hm => hn (mem_of_suffix hsuf hm), ?_⟩, ?_⟩
          · cases hh : v.head? with
            | none => rfl
            | some d => simp [hhead d hh]
          · rw [suffix_last hsuf hne]
            cases hh : (c :: t).getLast? with
            | none => rfl
            | some d => simp [hlast d hh]

theorem cleanVal_of_suffix {v l : Str} (hne : v ≠ []) (hsuf : v <:+ l) (hhead : ∀ c, v.head? = some c → pySpace c = false)
    (hn : '\n' ∉ l) (hlast : ∀ c, l.getLast? = some c → pySpace c = false) : cleanVal v = true := by
  unfold cleanVal
  simp only [Bool.and_eq_true, Bool.not_eq_true', List.contains_eq_mem, decide_eq_false_iff_not]
  refine ⟨⟨fun hm => hn (mem_of_suffix hsuf hm), ?_⟩, ?_⟩
  · cases hh : v.head? with
    | none => rfl
    | some d => simp [hhead d hh]
  · rw [suffix_last hsuf hne]
    cases hh : l.getLast? with
    | none => rfl
    | some d => simp [hlast d hh]

/-- an `%import` line: the argument is non-empty and clean -/
theorem import_inv {l arg : Str} (h : lineShape l = .import_ arg) (hn : '\n' ∉ l)
    (hlast : ∀ c, l.getLast? = some c → pySpace c = false) :
    arg ≠ [] ∧ cleanVal arg = true := by
  cases l with
  | nil => simp [lineShape] at h
  | cons c t =>
    by_cases h1 : c = '#'
    · subst h1; simp [lineShape] at h
    by_cases h2 : c = '<'
    · subst h2
      unfold lineShape at h
      simp only [List.take_succ_cons, List.take_zero, beq_iff_eq, List.cons.injEq,
        ↓reduceIte, beq_self_eq_true] at h
      repeat' split at h
      all_goals cases h
    by_cases h3 : c = '%'
    · subst h3
      have hnt : '\n' ∉ t := fun hm => hn (List.mem_cons_of_mem _ hm)
      unfold lineShape at h
      simp only [List.take_succ_cons, List.take_zero, beq_iff_eq, List.cons.injEq,
        ↓reduceIte, beq_self_eq_true, List.drop_succ_cons, List.drop_zero] at h
      rw [kvMatch_eq_keyValue t hnt] at h
      cases hk : Grammar.keyValue t with
      | none => rw [hk] at h; simp at h
      | some p =>
        obtain ⟨name, a?⟩ := p
        rw [hk] at h
        obtain ⟨_, _, hv⟩ := keyValue_inv hk
        cases a? with
        | none =>
          simp only [Option.getD_none, ↓reduceIte] at h
          repeat' split at h
          all_goals cases h
        | some a =>
          obtain ⟨hne, hsuf, hhead⟩ := hv a rfl
          simp only [Option.getD_some] at h
          repeat' split at h
          all_goals first | cases h | skip
          refine ⟨hne, cleanVal_of_suffix hne (hsuf.trans (List.suffix_cons _ _)) hhead hn hlast⟩
    rw [lineShape_data c t h1 h2 h3 hn] at h
    cases hk : Grammar.keyValue (c :: t) with
    | none => rw [hk] at h; cases h
    | some p => rw [hk] at h; cases h

theorem lower_cons (a : Char) (t : Str) : lower (a :: t) = lowerChar a :: lower t := rfl

/-- a section start: the type is a lower-case word that does not start with `/`, the name (if any) a lower-case word -/
theorem open_inv {l ty : Str} {nm : Option Str} {e : Bool} (h : lineShape l = .open_ ty nm e) (hn : '\n' ∉ l) :
    tyOK ty = true ∧ nameOK nm = true := by
  cases l with
  | nil => simp [lineShape] at h
  | cons c t =>
    by_cases h1 : c = '#'
    · subst h1; simp [lineShape] at h
    by_cases h3 : c = '%'
    · subst h3
      unfold lineShape at h
      simp only [List.take_succ_cons, List.take_zero, beq_iff_eq, List.cons.injEq,
        ↓reduceIte, beq_self_eq_true, Char.reduceEq, false_and] at h
      repeat' split at h
      all_goals cases h
    by_cases h2 : c = '<'
    · subst h2
      rcases List.eq_nil_or_concat t with rfl | ⟨R, b, rfl⟩
      · simp [lineShape, lastN] at h
      · rw [List.concat_eq_append] at h hn
        by_cases hb : b = '>'
        · subst hb
          by_cases hR : R.take 1 = ['/']
          · cases R with
            | nil => simp at hR
            | cons a R' =>
              simp only [List.take_succ_cons, List.take_zero, List.cons.injEq, and_true] at hR
              subst hR
              have : '<' :: ('/' :: R' ++ ['>']) = '<' :: '/' :: R' ++ ['>'] := rfl
              rw [this, lineShape_closeTag] at h
              cases h
          · have e0 : '<' :: (R ++ ['>']) = '<' :: R ++ ['>'] := rfl
            rw [e0, lineShape_open R hR] at h
            generalize htext : rstrip (if lastN R 1 == ['/'] then dropLastN R 1 else R) = text at h
            have hpre : text <+: R := by
              rw [← htext]
              refine (rstrip_prefix _).trans ?_
              split
              · exact dropLastN_prefix _ _
              · exact List.prefix_refl _
            have hnt : '\n' ∉ text := fun hm =>
              hn (List.mem_cons_of_mem _ (List.mem_append_left _ (mem_of_prefix hpre hm)))
            rw [hdrMatch_eq_header text hnt] at h
            cases hh : Grammar.header text with
            | none => rw [hh] at h; cases h
            | some p =>
              obtain ⟨ty0, nm0⟩ := p
              rw [hh] at h
              simp only [LineShape.open_.injEq] at h
              obtain ⟨rfl, rfl, _⟩ := h
              obtain ⟨hw, hp0, hname⟩ := header_inv hh
              refine ⟨?_, ?_⟩
              · unfold tyOK
                rw [Bool.and_eq_true, lower_tokOK hw]
                refine ⟨rfl, ?_⟩
                cases hty0 : ty0 with
                | nil => rw [hty0] at hw; exact absurd rfl (wordTok_ne hw)
                | cons a ty' =>
                  obtain ⟨R', hR'⟩ := prefix_head (hp0.trans hpre) hty0
                  have ha : a ≠ '/' := by
                    intro ea
                    apply hR
                    rw [hR', ea]; rfl
                  rw [lower_cons]
                  simp only [List.take_succ_cons, List.take_zero, bne_iff_ne, ne_eq, List.cons.injEq, and_true]
                  exact lowerChar_ne_slash a ha
              · cases nm0 with
                | none => rfl
                | some n =>
                  have hwn := hname n rfl
                  have : (n == []) = false := by rw [beq_eq_false_iff_ne]; exact wordTok_ne hwn
                  simp only [this, Bool.false_eq_true, ↓reduceIte, nameOK]
                  exact lower_tokOK hwn
        · have e3 : lastN ('<' :: (R ++ [b])) 1 = [b] := by
            have : '<' :: (R ++ [b]) = ('<' :: R) ++ [b] := rfl
            rw [this, lastN_snoc]
          unfold lineShape at h
          rw [e3] at h
          simp only [List.take_succ_cons, List.take_zero, beq_iff_eq, List.cons.injEq,
            ↓reduceIte, beq_self_eq_true, bne_iff_ne, ne_eq, hb, not_false_eq_true, and_true] at h
          repeat' split at h
          all_goals cases h
    rw [lineShape_data c t h1 h2 h3 hn] at h
    cases hk : Grammar.keyValue (c :: t) with
    | none => rw [hk] at h; cases h
    | some p => rw [hk] at h; cases h

/-! ### `$`-substitution keeps values clean when the environment is -/

/-- the texts `$(NAME)` can paste in are non-empty and clean -/
def EnvClean (getenv : Str → Option Str) : Prop := ∀ name v, getenv name = some v → v ≠ [] ∧ cleanVal v = true

theorem map_ok_inv {α β ε} {f : α → β} {x : Except ε α} {y : β} (h : x.map f = .ok y) : ∃ a, x = .ok a ∧ y = f a := by
  cases x with
  | error e => cases h
  | ok a => exact ⟨a, rfl, by cases h; rfl⟩

theorem glue (p v' s' : Str) (hp : p ≠ []) (hpn : '\n' ∉ p)
    (ih1 : '\n' ∉ v') (ih2 : s' ≠ [] → v' ≠ []) (ih3 : ∀ d, v'.getLast? = some d → pySpace d = false)
    (hlast : s' = [] → ∀ d, p.getLast? = some d → pySpace d = false) :
    '\n' ∉ p ++ v' ∧ p ++ v' ≠ [] ∧ (∀ d, (p ++ v').getLast? = some d → pySpace d = false) := by
  refine ⟨?_, by simp [hp], ?_⟩
  · intro hm
    rcases List.mem_append.1 hm with h | h
    · exact hpn h
    · exact ih1 h
  · intro d hd
    by_cases hv : v' = []
    · subst hv
      rw [List.append_nil] at hd
      have hs : s' = [] := by
        by_cases hs : s' = []
        · exact hs
        · exact absurd rfl (ih2 hs)
      exact hlast hs d hd
    · rw [getLast?_append_ne _ _ hv] at hd
      exact ih3 d hd

theorem head_append_ne (p v : Str) (hp : p ≠ []) : (p ++ v).head? = p.head? := by
  cases p with
  | nil => exact absurd rfl hp
  | cons a t => rfl

theorem nameSplit_suffix {r name rest : Str} (h : nameSplit r = some (name, rest)) : rest <:+ r := by
  cases r with
  | nil => simp [nameSplit] at h
  | cons c t =>
    simp only [nameSplit] at h
    split at h
    · simp only [Option.some.injEq, Prod.mk.injEq] at h
      rw [← h.2]
      exact (List.dropWhile_suffix _).trans (List.suffix_cons _ _)
    · cases h

/-- the statement carried through the recursion of `spec` -/
def SpecClean (env : Str → Option Str) (src s : Str) : Prop :=
  ∀ v, spec (fun _ => none) env src s = .ok v → '\n' ∉ s → (∀ c, s.getLast? = some c → pySpace c = false) →
    '\n' ∉ v ∧ (s ≠ [] → v ≠ []) ∧ (∀ d, v.getLast? = some d → pySpace d = false) ∧
      ((∀ c, s.head? = some c → pySpace c = false) → ∀ d, v.head? = some d → pySpace d = false)

theorem spec_clean_aux (env : Str → Option Str) (henv : EnvClean env) (src : Str) :
    ∀ (n : Nat) (s : Str), s.length ≤ n → SpecClean env src s := by
  intro n
  induction n with
  | zero =>
    intro s hl v hv _ _
    have : s = [] := List.eq_nil_of_length_eq_zero (by omega)
    subst this
    rw [spec_nil] at hv
    cases hv
    simp
  | succ n ih =>
    intro s hl v hv hn hlast
    -- what the induction hypothesis gives for a proper suffix
    have sub : ∀ (s' v' : Str), s' <:+ s → s'.length ≤ n → spec (fun _ => none) env src s' = .ok v' →
        '\n' ∉ v' ∧ (s' ≠ [] → v' ≠ []) ∧ (∀ d, v'.getLast? = some d → pySpace d = false) := by
      intro s' v' hsuf hlen hs'
      have := ih s' hlen v' hs' (fun hm => hn (mem_of_suffix hsuf hm)) (by
        intro c hc
        have hne : s' ≠ [] := by intro e; rw [e] at hc; simp at hc
        rw [suffix_last hsuf hne] at hc
        exact hlast c hc)
      exact ⟨this.1, this.2.1, this.2.2.1⟩
    cases s with
    | nil =>
      rw [spec_nil] at hv
      cases hv
      simp
    | cons c t =>
      have hlt : t.length ≤ n := by simp at hl; omega
      have hc_nl : c ≠ '\n' := fun e => hn (by rw [e]; exact List.mem_cons_self)
      by_cases hc : c = '$'
      · subst hc
        cases t with
        | nil => rw [spec] at hv; cases hv
        | cons x r =>
          have hlr : r.length ≤ n := by simp at hlt; omega
          have hsr : r <:+ '$' :: x :: r := (List.suffix_cons _ _).trans (List.suffix_cons _ _)
          by_cases hx1 : x = '$'
          · subst hx1
            rw [spec] at hv
            obtain ⟨v', hv', rfl⟩ := map_ok_inv hv
            obtain ⟨i1, i2, i3⟩ := sub r v' hsr hlr hv'
            have g := glue ['$'] v' r (by simp) (by decide) i1 i2 i3 (fun _ d hd => by simp at hd; rw [← hd]; decide)
            exact ⟨g.1, fun _ => g.2.1, g.2.2, fun _ d hd => by simp at hd; rw [← hd]; decide⟩
          by_cases hx2 : x = '{'
          · subst hx2
            rw [spec] at hv
            split at hv
            · cases hv
            · cases hv
            · cases hv
          by_cases hx3 : x = '('
          · subst hx3
            rw [spec] at hv
            split at hv
            · cases hv
            · rename_i name r' hns
              have hsuf := nameSplit_suffix hns
              have hlen := nameSplit_len _ _ _ hns
              cases he : env name with
              | none => rw [he] at hv; cases hv
              | some ev =>
                rw [he] at hv
                simp only at hv
                obtain ⟨v', hv', rfl⟩ := map_ok_inv hv
                obtain ⟨hevne, hevc⟩ := henv name ev he
                have hsr' : r' <:+ '$' :: '(' :: r := ((List.suffix_cons _ _).trans hsuf).trans hsr
                obtain ⟨i1, i2, i3⟩ := sub r' v' hsr' (by simp at hlen; omega) hv'
                have g := glue ev v' r' hevne (cleanVal_nonl hevc) i1 i2 i3 (fun _ d hd => cleanVal_last hevc d hd)
                refine ⟨g.1, fun _ => g.2.1, g.2.2, fun _ d hd => ?_⟩
                rw [head_append_ne _ _ hevne] at hd
                exact cleanVal_head hevc d hd
            · cases hv
          · rw [spec] at hv
            · split at hv
              · cases hv
              · cases hv
            all_goals (intros; simp_all)
      · rw [spec_lit _ _ _ _ _ hc] at hv
        obtain ⟨v', hv', rfl⟩ := map_ok_inv hv
        obtain ⟨i1, i2, i3⟩ := sub t v' (List.suffix_cons _ _) hlt hv'
        have g := glue [c] v' t (by simp) (by simp; exact fun e => hc_nl e.symm) i1 i2 i3 (fun ht d hd => by
          subst ht
          simp at hd
          rw [← hd]
          exact hlast c rfl)
        exact ⟨g.1, fun _ => g.2.1, g.2.2, fun hh d hd => by simp at hd; rw [← hd]; exact hh c rfl⟩

/-- a clean non-empty raw value stays clean and non-empty through `$`-substitution (no definitions, clean environment) -/
theorem replace_clean (getenv : Str → Option Str) (henv : EnvClean getenv) (url : Option Str) (n : Nat) (raw v : Str)
    (h : replace (envOf getenv) [] url n raw = .ok v) (hne : raw ≠ []) (hc : cleanVal raw = true) :
    v ≠ [] ∧ cleanVal v = true := by
  unfold replace at h
  have hdefs : lookupDef [] = fun _ => none := by
    funext k; rfl
  rw [hdefs] at h
  have hsub : Subst.substitute (fun _ => none) getenv raw = .ok v := by
    cases hs : Subst.substitute (fun _ => none) getenv raw with
    | ok r => rw [hs] at h; simp only [Except.ok.injEq] at h; rw [h]
    | error e => rw [hs] at h; cases e <;> cases h
  have h04 := ZCV.Props.C04.C04_substitute_eq_spec (fun _ => none) getenv raw
  rw [hsub] at h04
  simp only [Subst.conv, substituteSpec] at h04
  have := spec_clean_aux getenv henv raw raw.length raw (Nat.le_refl _) v h04.symm (cleanVal_nonl hc) (cleanVal_last hc)
  obtain ⟨a1, a2, a3, a4⟩ := this
  refine ⟨a2 hne, ?_⟩
  unfold cleanVal
  simp only [Bool.and_eq_true, Bool.not_eq_true', List.contains_eq_mem, decide_eq_false_iff_not]
  refine ⟨⟨a1, ?_⟩, ?_⟩
  · cases hh : v.head? with
    | none => rfl
    | some d => simp [a4 (cleanVal_head hc) d hh]
  · cases hh : v.getLast? with
    | none => rfl
    | some d => simp [a3 d hh]

/-! ### the loader's invariant -/

def topOK (t : Sec) : Prop := t.type = [] ∧ t.name = none ∧ kvsOK t.kvs = true ∧ wfSubs t.sections = true

/-- the open sections, innermost first; the last one is the top -/
def stackOK : List Sec → Prop
  | [] => False
  | [top] => topOK top
  | s :: x :: r => wfSub s = true ∧ stackOK (x :: r)

/-- no definitions (they are refused), clean imports, well-formed open sections -/
def Inv (st : PSt) : Prop := st.defs = [] ∧ impsOK st.ctx.imports = true ∧ stackOK st.ctx.stack

theorem stackOK_head {t : Str} {n : Option Str} {k : List (Str × List Str)} {ss rest : List Sec}
    (h : stackOK (Sec.mk t n k ss :: rest)) : kvsOK k = true ∧ wfSubs ss = true := by
  cases rest with
  | nil => exact ⟨h.2.2.1, h.2.2.2⟩
  | cons x r => have := wfSub_parts h.1; exact ⟨this.2.2.1, this.2.2.2⟩

theorem stackOK_upd {t : Str} {n : Option Str} {k k' : List (Str × List Str)} {ss ss' rest : List Sec}
    (h : stackOK (Sec.mk t n k ss :: rest)) (hk : kvsOK k' = true) (hs : wfSubs ss' = true) :
    stackOK (Sec.mk t n k' ss' :: rest) := by
  cases rest with
  | nil => exact ⟨h.1, h.2.1, hk, hs⟩
  | cons x r =>
    have := wfSub_parts h.1
    refine ⟨?_, h.2⟩
    rw [wfSub, this.1, this.2.1, hk, hs]; rfl

theorem stackOK_push {s : Sec} {stk : List Sec} (h : stackOK stk) (hs : wfSub s = true) : stackOK (s :: stk) := by
  cases stk with
  | nil => exact absurd h (by simp [stackOK])
  | cons x r => exact ⟨hs, h⟩

theorem wfSubs_snoc : ∀ (ss : List Sec) (c : Sec), wfSubs ss = true → wfSub c = true → wfSubs (ss ++ [c]) = true
  | [], c, _, hc => by rw [List.nil_append, wfSubs, hc]; rfl
  | s :: r, c, h, hc => by
    obtain ⟨h1, h2⟩ := wfSubs_cons h
    rw [List.cons_append, wfSubs, h1, wfSubs_snoc r c h2 hc]; rfl

theorem kvsOK_add {kvs : List (Str × List Str)} {key v : Str} (h : kvsOK kvs = true) (hk : keyOK key = true)
    (hv : cleanVal v = true) : kvsOK (secAddValue kvs key v) = true := by
  have hall := kvsOK_all h
  have hnd := kvsOK_nodup h
  unfold secAddValue
  split
  · -- the key is there: its list grows
    unfold kvsOK
    rw [Bool.and_eq_true, decide_eq_true_eq, List.all_eq_true]
    refine ⟨?_, ?_⟩
    · intro q hq
      rw [List.mem_map] at hq
      obtain ⟨p, hp, rfl⟩ := hq
      obtain ⟨a1, a2, a3⟩ := hall p hp
      split
      · simp only [Bool.and_eq_true, Bool.not_eq_true', List.all_eq_true]
        refine ⟨⟨a1, by cases p.2 <;> rfl⟩, ?_⟩
        intro x hx
        rcases List.mem_append.1 hx with hx | hx
        · exact a3 x hx
        · simp at hx; rw [hx]; exact hv
      · simp only [Bool.and_eq_true, Bool.not_eq_true', List.all_eq_true]
        exact ⟨⟨a1, a2⟩, a3⟩
    · have : (kvs.map (fun p => if p.1 == key then (p.1, p.2 ++ [v]) else p)).map (·.1) = kvs.map (·.1) := by
        rw [List.map_map]
        apply List.map_congr_left
        intro p _
        simp only [Function.comp]
        split <;> rfl
      rw [this]; exact hnd
  · rename_i hany
    have hnot : key ∉ kvs.map (·.1) := by
      intro hm
      apply hany
      rw [List.mem_map] at hm
      obtain ⟨p, hp, e⟩ := hm
      rw [List.any_eq_true]
      exact ⟨p, hp, by simp [e]⟩
    unfold kvsOK
    rw [Bool.and_eq_true, decide_eq_true_eq, List.all_eq_true]
    refine ⟨?_, ?_⟩
    · intro q hq
      rcases List.mem_append.1 hq with hq | hq
      · obtain ⟨a1, a2, a3⟩ := hall q hq
        simp only [Bool.and_eq_true, Bool.not_eq_true', List.all_eq_true]
        exact ⟨⟨a1, a2⟩, a3⟩
      · simp at hq
        rw [hq]
        simp [hk, hv]
    · rw [List.map_append, List.nodup_append]
      refine ⟨hnd, by simp, ?_⟩
      intro a ha b hb
      simp at hb
      rw [hb]
      intro e
      exact hnot (e ▸ ha)

theorem impsOK_add {imps : List Str} {p : Str} (h : impsOK imps = true) (hne : p ≠ []) (hp : cleanVal p = true) :
    impsOK (if imps.contains p then imps else imps ++ [p]) = true := by
  split
  · exact h
  · rename_i hc
    have hall := impsOK_all h
    have hnd := impsOK_nodup h
    unfold impsOK
    rw [Bool.and_eq_true, decide_eq_true_eq, List.all_eq_true]
    refine ⟨?_, ?_⟩
    · intro q hq
      rcases List.mem_append.1 hq with hq | hq
      · have := hall q hq
        have e : q.isEmpty = false := by cases q with | nil => exact absurd rfl this.1 | cons _ _ => rfl
        simp [e, this.2]
      · simp at hq
        rw [hq]
        have e : p.isEmpty = false := by cases p with | nil => exact absurd rfl hne | cons _ _ => rfl
        simp [e, hp]
    · rw [List.nodup_append]
      refine ⟨hnd, by simp, ?_⟩
      intro a ha b hb
      simp at hb
      rw [hb]
      intro e
      apply hc
      rw [List.contains_iff_mem]
      exact e ▸ ha

theorem keyValue_ok {σ} (env : Env) (c : PCtx σ) (url : Option Str) (line : Nat) (key raw : Str) (st st' : PS σ)
    (h : keyValue env c url line key raw st = .ok st') :
    ∃ v ctx1, ((raw = [] ∧ v = []) ∨ (raw ≠ [] ∧ replace env st.defs url line raw = .ok v)) ∧
      c.value st.ctx key v { line := line, url := url } = .ok ctx1 ∧ st' = { st with ctx := ctx1 } := by
  unfold keyValue at h
  simp only [bind, Except.bind, pure, Except.pure] at h
  have key : ∀ v, (match c.value st.ctx key v { line := line, url := url } with
      | .ok ctx1 => (.ok { st with ctx := ctx1 } : M (PS σ))
      | .error (.cfg e) =>
        .error (.cfg { e with line := (match e.line with | some l => if l < 0 then some (line : Int) else some l | none => some (line : Int)),
                              url := (match e.url with | some u => if u == [] then url else some u | none => url) })
      | .error f => .error f) = .ok st' →
      ∃ ctx1, c.value st.ctx key v { line := line, url := url } = .ok ctx1 ∧ st' = { st with ctx := ctx1 } := by
    intro v hv
    split at hv
    · rename_i ctx1 hc
      cases hv
      exact ⟨ctx1, hc, rfl⟩
    · cases hv
    · cases hv
  by_cases hr : (raw == []) = true
  · simp only [hr, if_true] at h
    obtain ⟨ctx1, h1, h2⟩ := key _ h
    exact ⟨[], ctx1, .inl ⟨beq_iff_eq.1 hr, rfl⟩, h1, h2⟩
  · simp only [hr] at h
    cases hrep : replace env st.defs url line raw with
    | error f =>
      rw [hrep] at h
      simp only at h
      cases h
    | ok v =>
      rw [hrep] at h
      simp only at h
      obtain ⟨ctx1, h1, h2⟩ := key _ h
      exact ⟨v, ctx1, .inr ⟨fun e => hr (by rw [e]; rfl), rfl⟩, h1, h2⟩

theorem slStop_inv {ctx ctx' : SL} {ty : Str} {nm : Option Str} (h : slStop ctx ty nm = .ok ctx')
    (hs : stackOK ctx.stack) : ctx'.imports = ctx.imports ∧ stackOK ctx'.stack := by
  unfold slStop at h
  split at h
  · rename_i child t n k ss rest hstk
    cases h
    rw [hstk] at hs
    have hc : wfSub child = true := hs.1
    have hp : stackOK (Sec.mk t n k ss :: rest) := hs.2
    obtain ⟨hk, hss⟩ := stackOK_head hp
    exact ⟨rfl, stackOK_upd hp hk (wfSubs_snoc ss child hss hc)⟩
  · cases h

theorem closeFixup_ok {σ} {url : Option Str} {line : Nat} {r : M σ} {s : σ} (h : closeFixup url line r = .ok s) :
    r = .ok s := by
  unfold closeFixup at h
  split at h
  · exact h
  · split at h <;> cases h
  · cases h

theorem step_inv (getenv : Str → Option Str) (henv : EnvClean getenv) (url : Option Str) (n : Nat) (l : Str)
    (st st' : PSt) (hinv : Inv st) (hn : '\n' ∉ l) (hlast : ∀ c, l.getLast? = some c → pySpace c = false)
    (h : stepS getenv url n l st = .ok st') : Inv st' := by
  obtain ⟨hdefs, himps, hstk⟩ := hinv
  unfold stepS stepLine at h
  split at h
  · -- skip
    cases h; exact ⟨hdefs, himps, hstk⟩
  · cases h
  · cases h
  · -- section end
    unfold closeSection at h
    split at h
    · cases h
    · split at h
      · cases h
      · obtain ⟨ctx2, hc, rfl⟩ := map_ok_inv h
        have hc' := closeFixup_ok hc
        simp only [schemalessCtx] at hc'
        have := slStop_inv hc' hstk
        exact ⟨hdefs, by rw [this.1]; exact himps, this.2⟩
  · -- section start
    rename_i ty nm isempty hshape
    obtain ⟨hty, hnm⟩ := open_inv hshape hn
    have hnew : wfSub (Sec.mk ty nm [] []) = true := by
      rw [wfSub, hty, hnm]; rfl
    unfold openSection at h
    simp only [schemalessCtx, slStart] at h
    split at h
    · obtain ⟨ctx2, hc, rfl⟩ := map_ok_inv h
      have hc' := closeFixup_ok hc
      have := slStop_inv (ctx := { st.ctx with stack := Sec.mk ty nm [] [] :: st.ctx.stack }) hc'
        (stackOK_push hstk hnew)
      exact ⟨hdefs, by rw [this.1]; exact himps, this.2⟩
    · cases h
      exact ⟨hdefs, himps, stackOK_push hstk hnew⟩
  · -- key and value
    rename_i key raw hshape
    obtain ⟨hkey, hraw⟩ := kv_inv hshape hn hlast
    obtain ⟨v, ctx1, hv, hval, rfl⟩ := keyValue_ok _ _ _ _ _ _ _ _ h
    have hvc : cleanVal v = true := by
      rcases hv with ⟨_, rfl⟩ | ⟨hne, hrep⟩
      · rfl
      · rw [hdefs] at hrep
        exact (replace_clean getenv henv url n raw v hrep hne hraw).2
    simp only [schemalessCtx, slValue] at hval
    split at hval
    · rename_i t nm0 k ss rest hs0
      cases hval
      rw [hs0] at hstk
      obtain ⟨hk, hss⟩ := stackOK_head hstk
      exact ⟨hdefs, himps, stackOK_upd hstk (kvsOK_add hk hkey hvc) hss⟩
    · cases hval
  · -- %define
    simp [schemalessCtx, bind, Except.bind] at h
  · -- %import
    rename_i arg hshape
    obtain ⟨hane, hac⟩ := import_inv hshape hn hlast
    have hs : strip arg = arg := strip_clean arg (cleanVal_head hac) (cleanVal_last hac)
    simp only [bind, Except.bind, hs] at h
    split at h
    · cases h
    · rename_i pkg hrep
      rw [hdefs] at hrep
      obtain ⟨hpne, hpc⟩ := replace_clean getenv henv url n arg pkg hrep hane hac
      simp only [schemalessCtx, slImport, pure, Except.pure] at h
      cases h
      refine ⟨hdefs, ?_, ?_⟩
      · have := impsOK_add himps hpne hpc
        split
        · exact himps
        · rename_i hc; simp only [hc, Bool.false_eq_true, ↓reduceIte] at this; exact this
      · split <;> exact hstk
  · -- %include
    simp only [bind, Except.bind, schemalessCtx] at h
    split at h
    · cases h
    · simp at h

theorem parse_inv (getenv : Str → Option Str) (henv : EnvClean getenv) (url : Option Str) :
    ∀ (lines : List Str) (n : Nat) (st st' : PSt), (∀ l ∈ lines, '\n' ∉ l) → Inv st →
      parseLines 8 (envOf getenv) schemalessCtx [] url lines n st = .ok st' → Inv st'
  | [], n, st, st', _, hinv, h => by
    rw [parseLines] at h
    split at h
    · cases h
    · cases h; exact hinv
  | l :: rest, n, st, st', hl, hinv, h => by
    rw [parseLines] at h
    simp only [bind, Except.bind] at h
    split at h
    · cases h
    · rename_i st1 hstep
      have hn : '\n' ∉ strip l := fun hm => hl l List.mem_cons_self (mem_strip hm)
      have h1 := step_inv getenv henv url (n + 1) (strip l) st st1 hinv hn (strip_last l) hstep
      exact parse_inv getenv henv url rest (n + 1) st1 st' (fun x hx => hl x (List.mem_cons_of_mem _ hx)) h1 h

theorem inv_st0 : Inv st0 := ⟨rfl, rfl, rfl, rfl, rfl, rfl⟩

/-- whatever the schema-less loader returns is well-formed (lines without embedded newlines, clean environment) -/
theorem slLoad_wf (getenv : Str → Option Str) (henv : EnvClean getenv) (url : Option Str) (lines : List Str)
    (hl : ∀ l ∈ lines, '\n' ∉ l) (t : Sec) (imps : List Str) (h : slLoad getenv url lines = .ok (t, imps)) :
    WF t imps := by
  unfold slLoad at h
  simp only [bind, Except.bind] at h
  split at h
  · cases h
  · rename_i ps hparse
    have hinv := parse_inv getenv henv url lines 0 st0 ps hl inv_st0 hparse
    obtain ⟨_, himps, hstk⟩ := hinv
    split at h
    · rename_i top htop
      simp only [pure, Except.pure, Except.ok.injEq, Prod.mk.injEq] at h
      obtain ⟨rfl, rfl⟩ := h
      rw [htop] at hstk
      exact ⟨hstk.1, hstk.2.1, hstk.2.2.1, hstk.2.2.2, himps⟩
    · cases h

end ZCV.Roundtrip
