import ZCV.Spec.Defines
import ZCV.Lemmas.DefinesSpec
import ZCV.Props.C04
import ZCV.Lemmas.Define
import ZCV.Lemmas.Include
import ZCV.Lemmas.Grammar
/-!
`define` / `replace` of the parser model against the `%define` spec (`ZCV.DefSpec`), and the fold over whole texts.
-/
namespace ZCV.Cfg
open ZCV ZCV.SubstSpec

/-- the exception the parser raises for a spec-level rejection at `line` of `url` -/
def failOf (url : Option Str) (line : Nat) : DefSpec.Err → Fail
  | .illegalName _ => synErr url line "not a substitution legal name"
  | .redefined _ => synErr url line "cannot redefine"
  | .subst (.missing _ _) => .cfg { kind := .replacement, line := some line, url := url, tag := "replacement" }
  | .subst (.syntax _) => .cfg { kind := .substSyntax, line := some line, url := url, tag := "subst-syntax" }

def liftE {α} (url : Option Str) (line : Nat) : Except DefSpec.Err α → M α
  | .ok a => .ok a
  | .error e => .error (failOf url line e)

theorem lookupDef_eq_get : lookupDef = DefSpec.get := rfl

theorem replace_eq_expand (env : Env) (defs : List (Str × Str)) (url : Option Str) (line : Nat) (text : Str) :
    replace env defs url line text = liftE url line (DefSpec.expand env.getenv defs text) := by
  have h := ZCV.Props.C04.C04_substitute_eq_spec (lookupDef defs) env.getenv text
  unfold replace DefSpec.expand
  rw [← lookupDef_eq_get, ← h]
  cases Subst.substitute (lookupDef defs) env.getenv text with
  | ok v => rfl
  | error e => cases e <;> rfl

theorem setDef_new (defs : List (Str × Str)) (k v : Str) (h : lookupDef defs k = none) :
    setDef defs k v = defs ++ [(k, v)] := by
  induction defs with
  | nil => rfl
  | cons p t ih =>
    unfold lookupDef at h ih
    simp only [List.find?_cons] at h
    unfold setDef
    split at h
    · simp at h
    · rename_i hp
      simp only [hp, Bool.false_eq_true, ↓reduceIte, List.cons_append]
      rw [ih h]

theorem setDef_same (defs : List (Str × Str)) (k v : Str) (h : lookupDef defs k = some v) :
    setDef defs k v = defs := by
  induction defs with
  | nil => simp [lookupDef] at h
  | cons p t ih =>
    unfold lookupDef at h ih
    simp only [List.find?_cons] at h
    unfold setDef
    split at h
    · rename_i hp
      simp only [Option.map_some, Option.some.injEq] at h
      have : p.1 = k := beq_iff_eq.mp hp
      simp only [hp, ↓reduceIte]
      rw [← this, ← h]
    · rename_i hp
      simp only [hp, Bool.false_eq_true, ↓reduceIte]
      rw [ih h]

theorem legal_of_get {d : DefSpec.Defs} (hl : DefSpec.Legal d) {k cur : Str} (h : DefSpec.get d k = some cur) :
    isnameSpec k = true := by
  unfold DefSpec.get at h
  cases hf : d.find? (·.1 == k) with
  | none => simp [hf] at h
  | some p =>
    have hm := List.mem_of_find?_eq_some hf
    have hk := List.find?_some hf
    have : p.1 = k := beq_iff_eq.mp hk
    rw [← this]
    exact hl p hm

theorem legal_nil : DefSpec.Legal [] := fun _ h => by cases h

theorem defineStep_legal (env : Str → Option Str) (d d' : DefSpec.Defs) (n raw : Str) (hl : DefSpec.Legal d)
    (h : DefSpec.defineStep env d n raw = .ok d') : DefSpec.Legal d' := by
  unfold DefSpec.defineStep at h
  simp only at h
  split at h
  · cases h
  · rename_i hn
    split at h
    · cases h
    · split at h
      · cases h
        intro p hp
        rcases List.mem_append.mp hp with hp | hp
        · exact hl p hp
        · simp only [List.mem_singleton] at hp
          subst hp
          simpa using hn
      · split at h
        · cases h; exact hl
        · cases h

/-- `handle_define` is the spec's `defineStep` (the mapping's recorded names being legal, which `defineStep` keeps) -/
theorem define_eq_spec (env : Env) (url : Option Str) (line : Nat) (rest p0 : Str) (more : List Str)
    (defs : List (Str × Str)) (hs : splitWS1 rest = p0 :: more) (hl : DefSpec.Legal defs) :
    define env url line rest defs = liftE url line (DefSpec.defineStep env.getenv defs p0 (defValue more)) := by
  unfold define
  rw [hs]
  simp only
  rw [replace_eq_expand, ZCV.Props.C04.C04_isname_spec]
  unfold DefSpec.defineStep
  simp only
  rw [lookupDef_eq_get]
  cases hg : DefSpec.get defs (lower p0) with
  | none =>
    by_cases hn : isnameSpec (lower p0) = true
    · simp only [hn, Bool.not_true, Bool.false_eq_true, ↓reduceIte]
      cases hx : DefSpec.expand env.getenv defs (defValue more) with
      | error e => rfl
      | ok v =>
        simp only [liftE, bind, Except.bind, pure, Except.pure]
        rw [setDef_new _ _ _ (by rw [lookupDef_eq_get]; exact hg)]
    · simp only [hn, Bool.not_false, ↓reduceIte]
      rfl
  | some cur =>
    have hn := legal_of_get hl hg
    simp only [hn, Bool.not_true, Bool.false_eq_true, ↓reduceIte]
    cases hx : DefSpec.expand env.getenv defs (defValue more) with
    | error e => rfl
    | ok v =>
      simp only [liftE, bind, Except.bind, pure, Except.pure]
      by_cases hc : cur = v
      · subst hc
        simp only [bne_self_eq_false, Bool.false_eq_true, ↓reduceIte]
        rw [setDef_same _ _ _ (by rw [lookupDef_eq_get]; exact hg)]
      · have : (cur != v) = true := by simpa using hc
        simp only [this, ↓reduceIte, hc]
        rfl

end ZCV.Cfg

namespace ZCV.Cfg
open ZCV ZCV.SubstSpec

/-! ### whole texts, recording context: `%define` lines, key lines, blank/comment lines -/

/-- how the parser reads one physical line, as far as the `%define` namespace is concerned -/
def stepOf (l : Str) : Option DefSpec.Step :=
  match lineShape (strip l) with
  | .skip => some .blank
  | .kv k raw => some (.use k raw)
  | .define arg =>
    match splitWS1 arg with
    | p0 :: more => some (.define p0 (defValue more))
    | [] => none
  | _ => none

/-- the `%define name value` lines of a text, in reading order (all other lines dropped) -/
def defLinesOf (lines : List Str) : List (Str × Str) :=
  lines.filterMap fun l =>
    match lineShape (strip l) with
    | .define arg => (match splitWS1 arg with | p0 :: more => some (p0, defValue more) | [] => none)
    | _ => none

theorem replace_nil (env : Env) (defs) (url : Option Str) (line : Nat) : replace env defs url line [] = .ok [] :=
  replace_nodollar env defs url line [] (by simp)

theorem kvValue_eq (env : Env) (defs) (url : Option Str) (line : Nat) (raw : Str) :
    (if raw == [] then (pure [] : M Str) else replace env defs url line raw) = replace env defs url line raw := by
  split
  · rename_i h
    have : raw = [] := by simpa using h
    subst this
    rw [replace_nil]; rfl
  · rfl

theorem stepLine_skip {σ} (fuel : Nat) (env : Env) (c : PCtx σ) (active : List Str) (url : Option Str) (line : Nat)
    (l : Str) (st : PS σ) (h : lineShape l = .skip) : stepLine fuel env c active url line l st = .ok st := by
  rw [stepLine]; simp only [h]

theorem stepLine_kv {σ} (fuel : Nat) (env : Env) (c : PCtx σ) (active : List Str) (url : Option Str) (line : Nat)
    (l k raw : Str) (st : PS σ) (h : lineShape l = .kv k raw) :
    stepLine fuel env c active url line l st =
      (replace env st.defs url line raw >>= fun v => kvCore c url line k v st) := by
  rw [stepLine]; simp only [h]
  rw [keyValue_eq, kvValue_eq]

/-- what the spec says one line does to the recording parser state -/
def stepSem (env : Env) (url : Option Str) (n : Nat) (st : PS (List Ev0)) : DefSpec.Step → M (PS (List Ev0))
  | .blank => .ok st
  | .define name raw =>
    liftE url (n + 1) ((DefSpec.defineStep env.getenv st.defs name raw).map fun d => { st with defs := d })
  | .use k raw =>
    liftE url (n + 1) ((DefSpec.expand env.getenv st.defs raw).map fun v => { st with ctx := st.ctx ++ [.value k v] })

/-- one line against the spec (recording context) -/
theorem step_rec0_spec (fuel : Nat) (env : Env) (active : List Str) (url : Option Str) (n : Nat) (l : Str)
    (s : DefSpec.Step) (st : PS (List Ev0)) (hs : stepOf l = some s) (hl : DefSpec.Legal st.defs) :
    stepLine fuel env rec0 active url (n + 1) (strip l) st = stepSem env url n st s := by
  unfold stepOf at hs
  split at hs
  · rename_i h
    cases hs
    exact stepLine_skip _ _ _ _ _ _ _ _ h
  · rename_i k raw h
    cases hs
    rw [stepLine_kv _ _ _ _ _ _ _ _ _ _ h, replace_eq_expand]
    simp only [stepSem]
    cases DefSpec.expand env.getenv st.defs raw <;> rfl
  · rename_i arg h
    split at hs
    · rename_i p0 more hsp
      cases hs
      rw [stepLine_define _ _ _ _ _ _ _ _ _ h]
      unfold defStep
      rw [define_eq_spec env url (n + 1) arg p0 more st.defs hsp hl]
      simp only [stepSem]
      cases DefSpec.defineStep env.getenv st.defs p0 (defValue more) <;> rfl
    · cases hs
  · cases hs

/-- `Reads lines steps`: every line is a `%define`, a key line or a blank/comment line, and `steps` is how they read -/
inductive Reads : List Str → List DefSpec.Step → Prop
  | nil : Reads [] []
  | cons {l s lines steps} : stepOf l = some s → Reads lines steps → Reads (l :: lines) (s :: steps)

/-- a whole run of such lines: the parser does exactly what the spec's `run` says — same definitions, same values
    delivered, same kind of error at the same line -/
theorem run_rec0_spec (fuel : Nat) (env : Env) (active : List Str) (url : Option Str) :
    ∀ (lines : List Str) (steps : List DefSpec.Step) (n : Nat) (st : PS (List Ev0)),
      Reads lines steps → DefSpec.Legal st.defs →
      runLines fuel env rec0 active url lines n st =
        match DefSpec.run env.getenv n steps st.defs with
        | .ok (d, vs) => .ok { st with ctx := st.ctx ++ vs.map (fun kv => Ev0.value kv.1 kv.2), defs := d }
        | .error (i, e) => .error (failOf url i e) := by
  intro lines steps n st hf
  induction hf generalizing n st with
  | nil => intro _; simp [runLines, DefSpec.run]
  | @cons l s lines steps hs _ ih =>
    intro hl
    simp only [runLines]
    rw [step_rec0_spec fuel env active url n l s st hs hl]
    cases s with
    | blank =>
      simp only [DefSpec.run, stepSem]
      exact ih (n + 1) st hl
    | define name raw =>
      simp only [DefSpec.run, stepSem]
      cases hd : DefSpec.defineStep env.getenv st.defs name raw with
      | error e => rfl
      | ok d =>
        have hl' := defineStep_legal _ _ _ _ _ hl hd
        simp only [liftE, SubstSpec.map_ok]
        show runLines fuel env rec0 active url lines (n + 1) { st with defs := d } = _
        rw [ih (n + 1) { st with defs := d } hl']
    | use k raw =>
      simp only [DefSpec.run, stepSem]
      cases hx : DefSpec.expand env.getenv st.defs raw with
      | error e => rfl
      | ok v =>
        simp only [liftE, SubstSpec.map_ok]
        show runLines fuel env rec0 active url lines (n + 1) { st with ctx := st.ctx ++ [.value k v] } = _
        rw [ih (n + 1) { st with ctx := st.ctx ++ [.value k v] } hl]
        cases DefSpec.run env.getenv (n + 1) steps st.defs with
        | error e => rfl
        | ok r =>
          obtain ⟨d, vs⟩ := r
          simp

theorem parse_rec0_spec (fuel : Nat) (env : Env) (active : List Str) (url : Option Str)
    (lines : List Str) (steps : List DefSpec.Step) (n : Nat) (st : PS (List Ev0))
    (hf : Reads lines steps) (hl : DefSpec.Legal st.defs)
    (hstack : st.stack = []) :
    parseLines fuel env rec0 active url lines n st =
      match DefSpec.run env.getenv n steps st.defs with
      | .ok (d, vs) => .ok { st with ctx := st.ctx ++ vs.map (fun kv => Ev0.value kv.1 kv.2), defs := d }
      | .error (i, e) => .error (failOf url i e) := by
  rw [parseLines_eq_run, run_rec0_spec fuel env active url lines steps n st hf hl]
  cases DefSpec.run env.getenv n steps st.defs with
  | error e => rfl
  | ok r =>
    obtain ⟨d, vs⟩ := r
    show finish url _ _ = _
    simp [finish, hstack]

/-- the definitions component of the spec's `run` is the fold over the `%define` lines alone -/
theorem run_defs (env : Str → Option Str) :
    ∀ (steps : List DefSpec.Step) (n : Nat) (d d' : DefSpec.Defs) (vs : List (Str × Str)),
      DefSpec.run env n steps d = .ok (d', vs) → DefSpec.defineFold env (DefSpec.definesOf steps) d = .ok d' := by
  intro steps
  induction steps with
  | nil => intro n d d' vs h; simp [DefSpec.run] at h; simp [DefSpec.definesOf, DefSpec.defineFold, h.1]
  | cons s r ih =>
    intro n d d' vs h
    cases s with
    | blank => simp only [DefSpec.run] at h; exact ih _ _ _ _ h
    | define name raw =>
      simp only [DefSpec.run] at h
      simp only [DefSpec.definesOf, DefSpec.defineFold]
      cases hd : DefSpec.defineStep env d name raw with
      | error e => simp [hd] at h
      | ok d1 => simp only [hd] at h ⊢; exact ih _ _ _ _ h
    | use k raw =>
      simp only [DefSpec.run] at h
      simp only [DefSpec.definesOf]
      split at h
      · cases h
      · split at h
        · cases h
        · rename_i d2 vs2 h2
          cases h
          exact ih _ _ _ _ h2

end ZCV.Cfg

namespace ZCV.Cfg
open ZCV ZCV.SubstSpec

/-! ### any context: only `%define` (and `%include`) lines touch the mapping -/

theorem openSection_defs {σ} (c : PCtx σ) (url : Option Str) (line : Nat) (ty : Str) (nm : Option Str) (e : Bool)
    (st st' : PS σ) (h : openSection c url line ty nm e st = .ok st') : st'.defs = st.defs := by
  unfold openSection at h
  split at h
  · cases h
  · cases h
  · split at h
    · obtain ⟨c2, _, rfl⟩ := map_ok_inv h; rfl
    · cases h; rfl

theorem closeSection_defs {σ} (c : PCtx σ) (url : Option Str) (line : Nat) (ty : Str)
    (st st' : PS σ) (h : closeSection c url line ty st = .ok st') : st'.defs = st.defs := by
  unfold closeSection at h
  split at h
  · cases h
  · split at h
    · cases h
    · obtain ⟨c2, _, rfl⟩ := map_ok_inv h; rfl

theorem kvCore_defs {σ} (c : PCtx σ) (url : Option Str) (line : Nat) (k v : Str)
    (st st' : PS σ) (h : kvCore c url line k v st = .ok st') : st'.defs = st.defs := by
  unfold kvCore at h
  split at h
  · cases h; rfl
  · cases h
  · cases h

/-- a line that is neither `%define` nor `%include` leaves the mapping alone -/
theorem stepLine_defs_other {σ} (fuel : Nat) (env : Env) (c : PCtx σ) (active : List Str) (url : Option Str) (line : Nat)
    (l : Str) (st st' : PS σ) (hnd : ∀ a, lineShape l ≠ .define a) (hni : ∀ a, lineShape l ≠ .include_ a)
    (h : stepLine fuel env c active url line l st = .ok st') : st'.defs = st.defs := by
  cases hs : lineShape l with
  | skip => rw [stepLine_skip _ _ _ _ _ _ _ _ hs] at h; cases h; rfl
  | bad t => rw [stepLine] at h; simp only [hs] at h; cases h
  | internal t => rw [stepLine] at h; simp only [hs] at h; cases h
  | close ty => rw [stepLine] at h; simp only [hs] at h; exact closeSection_defs _ _ _ _ _ _ h
  | open_ ty nm e => rw [stepLine] at h; simp only [hs] at h; exact openSection_defs _ _ _ _ _ _ _ _ h
  | kv k raw =>
    rw [stepLine_kv _ _ _ _ _ _ _ _ _ _ hs] at h
    obtain ⟨v, _, h⟩ := bind_ok_inv h
    exact kvCore_defs _ _ _ _ _ _ _ h
  | define a => exact absurd hs (hnd a)
  | include_ a => exact absurd hs (hni a)
  | import_ a =>
    rw [stepLine_import _ _ _ _ _ _ _ _ _ hs] at h
    unfold impStep at h
    obtain ⟨v, _, h⟩ := bind_ok_inv h
    obtain ⟨d, _, rfl⟩ := map_ok_inv h
    rfl

/-- an accepted `%define` line changes the mapping as the spec says (and nothing else) -/
theorem stepLine_defs_define {σ} (fuel : Nat) (env : Env) (c : PCtx σ) (active : List Str) (url : Option Str) (line : Nat)
    (l arg : Str) (st st' : PS σ) (hs : lineShape l = .define arg) (hl : DefSpec.Legal st.defs)
    (h : stepLine fuel env c active url line l st = .ok st') :
    ∃ p0 more, splitWS1 arg = p0 :: more ∧
      DefSpec.defineStep env.getenv st.defs p0 (defValue more) = .ok st'.defs ∧
      st' = { st with defs := st'.defs } := by
  rw [stepLine_define _ _ _ _ _ _ _ _ _ hs] at h
  unfold defStep at h
  split at h
  · cases h
  · obtain ⟨d, hd, rfl⟩ := map_ok_inv h
    cases hsp : splitWS1 arg with
    | nil => unfold define at hd; rw [hsp] at hd; cases hd
    | cons p0 more =>
      refine ⟨p0, more, rfl, ?_, rfl⟩
      rw [define_eq_spec env url line arg p0 more st.defs hsp hl] at hd
      cases hx : DefSpec.defineStep env.getenv st.defs p0 (defValue more) with
      | error e => rw [hx] at hd; cases hd
      | ok d' => rw [hx] at hd; cases hd; rfl

/-- **the mapping after a text = the spec's fold over its `%define` lines** (any context, any mix of sections, keys,
    `%import`s, blank lines in between; no `%include` in this text) -/
theorem run_defs_fold {σ} (fuel : Nat) (env : Env) (c : PCtx σ) (active : List Str) (url : Option Str) :
    ∀ (lines : List Str) (n : Nat) (st st' : PS σ), NoInclude lines → DefSpec.Legal st.defs →
      runLines fuel env c active url lines n st = .ok st' →
      DefSpec.defineFold env.getenv (defLinesOf lines) st.defs = .ok st'.defs ∧ DefSpec.Legal st'.defs := by
  intro lines
  induction lines with
  | nil =>
    intro n st st' _ hl h
    cases h
    exact ⟨rfl, hl⟩
  | cons l rest ih =>
    intro n st st' hni hl h
    simp only [runLines] at h
    obtain ⟨s1, h1, h2⟩ := bind_ok_inv h
    have hni_l : ∀ a, lineShape (strip l) ≠ .include_ a := hni l (by simp)
    have hni_r : NoInclude rest := fun x hx => hni x (by simp [hx])
    cases hs : lineShape (strip l) with
    | define arg =>
      obtain ⟨p0, more, hsp, hd, _⟩ := stepLine_defs_define _ _ _ _ _ _ _ _ _ _ hs hl h1
      have hl1 := defineStep_legal _ _ _ _ _ hl hd
      have := ih (n + 1) s1 st' hni_r hl1 h2
      refine ⟨?_, this.2⟩
      simp only [defLinesOf, List.filterMap_cons, hs, hsp, DefSpec.defineFold, hd]
      exact this.1
    | _ =>
      have e1 : s1.defs = st.defs :=
        stepLine_defs_other _ _ _ _ _ _ _ _ _ (by simp [hs]) hni_l h1
      have := ih (n + 1) s1 st' hni_r (e1 ▸ hl) h2
      refine ⟨?_, this.2⟩
      simp only [defLinesOf, List.filterMap_cons, hs]
      rw [← e1]
      exact this.1

theorem finish_ok {σ} {url : Option Str} {k : Nat} {st st' : PS σ} (h : finish url k st = .ok st') : st' = st := by
  unfold finish at h
  split at h
  · cases h
  · cases h; rfl

theorem parse_defs_fold {σ} (fuel : Nat) (env : Env) (c : PCtx σ) (active : List Str) (url : Option Str)
    (lines : List Str) (n : Nat) (st st' : PS σ) (hni : NoInclude lines) (hl : DefSpec.Legal st.defs)
    (h : parseLines fuel env c active url lines n st = .ok st') :
    DefSpec.defineFold env.getenv (defLinesOf lines) st.defs = .ok st'.defs := by
  rw [parseLines_eq_run] at h
  obtain ⟨s, hs, hf⟩ := bind_ok_inv h
  rw [finish_ok hf]
  exact (run_defs_fold fuel env c active url lines n st s hni hl hs).1

/-- the key line after a prefix `A`: its value is expanded with the mapping `A` leaves, whatever follows -/
theorem use_after_prefix {σ} (fuel : Nat) (env : Env) (c : PCtx σ) (active : List Str) (url : Option Str)
    (A B : List Str) (l key raw : Str) (n : Nat) (st stA : PS σ)
    (hA : runLines fuel env c active url A n st = .ok stA)
    (hshape : lineShape (strip l) = .kv key raw) :
    parseLines fuel env c active url (A ++ l :: B) n st =
      (liftE url (n + A.length + 1) (DefSpec.expand env.getenv stA.defs raw) >>= fun v =>
        kvCore c url (n + A.length + 1) key v stA >>= fun s =>
          parseLines fuel env c active url B (n + A.length + 1) s) := by
  rw [parseLines_append, hA, ok_bind, parseLines, stepLine_kv _ _ _ _ _ _ _ _ _ _ hshape, replace_eq_expand, bind_assoc]

/-- the `%include` line after a prefix `A`: the included resource is read with the mapping `A` leaves, and the rest
    of the includer is read with the mapping the included resource leaves -/
theorem include_after_prefix {σ} (fuel : Nat) (env : Env) (c : PCtx σ) (active : List Str) (url : Option Str)
    (A B F : List Str) (inc arg a u : Str) (n : Nat) (st stA : PS σ)
    (hA : runLines (fuel + 1) env c active url A n st = .ok stA)
    (hshape : lineShape (strip inc) = .include_ arg)
    (hci : c.canInclude = true)
    (harg : replace env stA.defs url (n + A.length + 1) (strip arg) = .ok a)
    (hres : env.resolve url a = .url u)
    (hfile : env.res u = some F)
    (hact : u ∉ active) :
    parseLines (fuel + 1) env c active url (A ++ inc :: B) n st =
      (parseLines fuel env c (u :: active) (some u) F 0 { ctx := stA.ctx, stack := [], defs := stA.defs } >>= fun sub =>
        parseLines (fuel + 1) env c active url B (n + A.length + 1) { stA with ctx := sub.ctx, defs := sub.defs }) := by
  rw [parseLines_append, hA, ok_bind, parseLines, stepLine_include _ _ _ _ _ _ _ _ _ hshape]
  unfold incStep
  have hg : (u != [] && active.contains u) = false := by simp [hact]
  rw [harg, ok_bind]
  simp only [hci, Bool.not_true, Bool.false_eq_true, if_false, hres, hfile, hg, bind_assoc]
  rfl

/-! ### a reference to a name that is not (yet) defined -/

theorem takeWhile_all {α} (p : α → Bool) (t : List α) (h : t.all p = true) : t.takeWhile p = t := by
  induction t with
  | nil => rfl
  | cons a l ih =>
    simp only [List.all_cons, Bool.and_eq_true] at h
    simp only [List.takeWhile_cons, h.1, ↓reduceIte, ih h.2]

theorem nameSplit_name (c : Char) (t : Str) (hc : isNameStart c = true) (ht : t.all isNameChar = true) :
    nameSplit (c :: t) = some (c :: t, []) := by
  have h1 : t.takeWhile isNameChar = t := takeWhile_all _ _ ht
  have h2 : t.dropWhile isNameChar = [] := dropWhile_all_nil _ _ ht
  simp only [nameSplit, hc, ↓reduceIte, h1, h2]

theorem isNameStart_ne {c : Char} (hc : isNameStart c = true) : c ≠ '$' ∧ c ≠ '{' ∧ c ≠ '(' := by
  refine ⟨?_, ?_, ?_⟩ <;> (intro h; subst h; revert hc; decide)

/-- `$name` with `name` not in the mapping: a replacement error naming the reference -/
theorem expand_ref_missing (env : Str → Option Str) (d : DefSpec.Defs) (x : Str) (hx : isnameSpec x = true)
    (hd : DefSpec.get d (lower x) = none) :
    DefSpec.expand env d ('$' :: x) = .error (.subst (.missing ('$' :: x) x)) := by
  cases x with
  | nil => simp [isnameSpec] at hx
  | cons c t =>
    simp only [isnameSpec, Bool.and_eq_true] at hx
    obtain ⟨hc, ht⟩ := hx
    obtain ⟨h1, h2, h3⟩ := isNameStart_ne hc
    unfold DefSpec.expand substituteSpec
    rw [spec_bare _ _ _ c t (c :: t) [] h1 h2 h3 (nameSplit_name c t hc ht), hd]

end ZCV.Cfg

namespace ZCV.Cfg
theorem defineFold_append (env : Str → Option Str) :
    ∀ (xs ys : List (Str × Str)) (d d1 : DefSpec.Defs), DefSpec.defineFold env xs d = .ok d1 →
      DefSpec.defineFold env (xs ++ ys) d = DefSpec.defineFold env ys d1 := by
  intro xs
  induction xs with
  | nil => intro ys d d1 h; cases h; rfl
  | cons x r ih =>
    intro ys d d1 h
    obtain ⟨name, raw⟩ := x
    simp only [List.cons_append, DefSpec.defineFold] at h ⊢
    cases hd : DefSpec.defineStep env d name raw with
    | error e => rw [hd] at h; cases h
    | ok d' => rw [hd] at h; simp only; exact ih ys d' d1 h
end ZCV.Cfg

namespace ZCV.Cfg
/-! ### reading concrete lines through the grammar spec (for examples) -/

theorem shape_of_classify_define {line a : Str} (hn : '\n' ∉ line) (h : Grammar.classify line = .define a) :
    lineShape (strip line) = .define a := by
  have := lineShape_eq_classify line hn
  rw [h] at this
  cases hs : lineShape (strip line) <;> rw [hs] at this <;> simp [toSpec] at this
  rw [this]

theorem shape_of_classify_kv {line k v : Str} (hn : '\n' ∉ line) (h : Grammar.classify line = .kv k v) :
    lineShape (strip line) = .kv k v := by
  have := lineShape_eq_classify line hn
  rw [h] at this
  cases hs : lineShape (strip line) <;> rw [hs] at this <;> simp [toSpec] at this
  rw [this.1, this.2]

theorem shape_of_classify_skip {line : Str} (hn : '\n' ∉ line) (h : Grammar.classify line = .skip) :
    lineShape (strip line) = .skip := by
  have := lineShape_eq_classify line hn
  rw [h] at this
  cases hs : lineShape (strip line) <;> rw [hs] at this <;> simp [toSpec] at this

theorem stepOf_define {line a p0 : Str} {more : List Str} (hn : '\n' ∉ line) (h : Grammar.classify line = .define a)
    (hs : splitWS1 a = p0 :: more) : stepOf line = some (.define p0 (defValue more)) := by
  unfold stepOf
  rw [shape_of_classify_define hn h]
  simp only [hs]

theorem stepOf_kv {line k v : Str} (hn : '\n' ∉ line) (h : Grammar.classify line = .kv k v) :
    stepOf line = some (.use k v) := by
  unfold stepOf
  rw [shape_of_classify_kv hn h]

theorem stepOf_skip {line : Str} (hn : '\n' ∉ line) (h : Grammar.classify line = .skip) :
    stepOf line = some .blank := by
  unfold stepOf
  rw [shape_of_classify_skip hn h]

end ZCV.Cfg
