import ZCV.Lemmas.RoundtripDefs
/-!
`sorted(self.items())` and `Section.addValue` (C17): sorting is a permutation, sorting a sorted list changes
nothing, and feeding the sorted (key, value) pairs back through `addValue` rebuilds the sorted dictionary.
-/
namespace ZCV.Roundtrip
open ZCV ZCV.Cfg

abbrev KV := Str × List Str

theorem insertKey_perm (p : KV) (l : List KV) : (insertKey p l).Perm (p :: l) := by
  induction l with
  | nil => exact List.Perm.refl _
  | cons q r ih =>
    unfold insertKey
    split
    · exact List.Perm.refl _
    · exact (List.Perm.cons q ih).trans (List.Perm.swap p q r)

theorem sortKeys_perm (l : List KV) : (sortKeys l).Perm l := by
  induction l with
  | nil => exact List.Perm.refl _
  | cons p r ih =>
    show (insertKey p (sortKeys r)).Perm (p :: r)
    exact (insertKey_perm p _).trans (List.Perm.cons p ih)

theorem sortKeys_cons (p : KV) (r : List KV) : sortKeys (p :: r) = insertKey p (sortKeys r) := rfl

theorem mem_sortKeys {p : KV} {l : List KV} : p ∈ sortKeys l ↔ p ∈ l := (sortKeys_perm l).mem_iff

theorem sortKeys_isEmpty (l : List KV) : (sortKeys l).isEmpty = l.isEmpty := by
  have := (sortKeys_perm l).length_eq
  cases l with
  | nil => rfl
  | cons a r =>
    cases h : sortKeys (a :: r) with
    | nil => rw [h] at this; simp at this
    | cons _ _ => rfl

theorem char_toNat_inj {a b : Char} (h : a.toNat = b.toNat) : a = b := by
  apply Char.ext
  apply UInt32.toNat_inj.1
  exact h

/-- on different keys one of the two comes first -/
theorem strLt_total : ∀ (a b : Str), strLt a b = false → a ≠ b → strLt b a = true
  | [], [], _, h => absurd rfl h
  | [], _ :: _, h, _ => by simp [strLt] at h
  | _ :: _, [], _, _ => by simp [strLt]
  | x :: s, y :: t, h, hne => by
    unfold strLt at h ⊢
    by_cases h1 : x.toNat < y.toNat
    · simp [h1] at h
    · by_cases h2 : y.toNat < x.toNat
      · simp [h2]
      · have hxy : x = y := char_toNat_inj (by omega)
        simp only [h1, h2, ↓reduceIte] at h ⊢
        apply strLt_total s t h
        intro e; apply hne; rw [hxy, e]

/-- neighbours are in strictly increasing key order -/
def Adj : List KV → Prop
  | [] => True
  | [_] => True
  | a :: b :: r => strLt a.1 b.1 = true ∧ Adj (b :: r)

theorem adj_tail {a : KV} {r : List KV} (h : Adj (a :: r)) : Adj r := by
  cases r with
  | nil => trivial
  | cons b r' => exact h.2

theorem insertKey_adj (p : KV) : ∀ (l : List KV), Adj l → (∀ q ∈ l, q.1 ≠ p.1) → Adj (insertKey p l)
  | [], _, _ => trivial
  | [q], _, hne => by
    unfold insertKey
    split
    · rename_i h; exact ⟨h, trivial⟩
    · rename_i h
      simp only [Bool.not_eq_true] at h
      exact ⟨strLt_total _ _ h (fun e => hne q (by simp) e.symm), trivial⟩
  | q :: q2 :: r, hadj, hne => by
    have ih := insertKey_adj p (q2 :: r) hadj.2 (fun x hx => hne x (List.mem_cons_of_mem _ hx))
    unfold insertKey
    split
    · rename_i h; exact ⟨h, hadj⟩
    · rename_i h
      simp only [Bool.not_eq_true] at h
      have hqp := strLt_total _ _ h (fun e => hne q (by simp) e.symm)
      unfold insertKey at ih ⊢
      split
      · exact ⟨hqp, by rename_i h2; simpa [h2] using ih⟩
      · rename_i h2
        simp only [h2] at ih
        exact ⟨hadj.1, ih⟩

theorem sortKeys_adj (l : List KV) (hnd : (l.map (·.1)).Nodup) : Adj (sortKeys l) := by
  induction l with
  | nil => trivial
  | cons p r ih =>
    rw [List.map_cons, List.nodup_cons] at hnd
    rw [sortKeys_cons]
    apply insertKey_adj p _ (ih hnd.2)
    intro q hq e
    apply hnd.1
    rw [← e]
    exact List.mem_map_of_mem (mem_sortKeys.1 hq)

theorem sortKeys_of_adj : ∀ (l : List KV), Adj l → sortKeys l = l
  | [], _ => rfl
  | [a], _ => rfl
  | a :: b :: r, h => by
    rw [sortKeys_cons, sortKeys_of_adj (b :: r) h.2]
    simp [insertKey, h.1]

/-- sorting twice is sorting once (keys distinct) -/
theorem sortKeys_idem (l : List KV) (hnd : (l.map (·.1)).Nodup) : sortKeys (sortKeys l) = sortKeys l :=
  sortKeys_of_adj _ (sortKeys_adj l hnd)

theorem kvsOK_perm {l l' : List KV} (hp : l.Perm l') (h : kvsOK l' = true) : kvsOK l = true := by
  unfold kvsOK at h ⊢
  rw [Bool.and_eq_true, decide_eq_true_eq] at h ⊢
  refine ⟨?_, (hp.map _).nodup_iff.2 h.2⟩
  rw [List.all_eq_true] at h ⊢
  intro x hx
  exact h.1 x (hp.mem_iff.1 hx)

theorem kvsOK_sort {l : List KV} (h : kvsOK l = true) : kvsOK (sortKeys l) = true :=
  kvsOK_perm (sortKeys_perm l) h

/-! ### `addValue` over the printed pairs -/

def addAll (acc : List KV) (pairs : List (Str × Str)) : List KV :=
  pairs.foldl (fun a q => secAddValue a q.1 q.2) acc

theorem any_key_false (acc : List KV) (k : Str) (h : k ∉ acc.map (·.1)) : acc.any (·.1 == k) = false := by
  rw [Bool.eq_false_iff]
  intro hc
  rw [List.any_eq_true] at hc
  obtain ⟨x, hx, e⟩ := hc
  apply h
  rw [← (beq_iff_eq.1 e)]
  exact List.mem_map_of_mem hx

theorem add_new (acc : List KV) (k v : Str) (h : k ∉ acc.map (·.1)) :
    secAddValue acc k v = acc ++ [(k, [v])] := by
  unfold secAddValue
  rw [any_key_false acc k h]
  rfl

theorem map_other (acc : List KV) (k v : Str) (h : k ∉ acc.map (·.1)) :
    acc.map (fun p => if p.1 == k then (p.1, p.2 ++ [v]) else p) = acc := by
  induction acc with
  | nil => rfl
  | cons a r ih =>
    rw [List.map_cons, List.mem_cons, not_or] at h
    rw [List.map_cons, ih h.2]
    have : (a.1 == k) = false := by
      rw [beq_eq_false_iff_ne]; exact fun e => h.1 e.symm
    simp [this]

theorem add_old (acc : List KV) (k : Str) (vs : List Str) (v : Str) (h : k ∉ acc.map (·.1)) :
    secAddValue (acc ++ [(k, vs)]) k v = acc ++ [(k, vs ++ [v])] := by
  unfold secAddValue
  have : (acc ++ [(k, vs)]).any (·.1 == k) = true := by simp
  rw [this]
  simp only [↓reduceIte, List.map_append, map_other acc k v h, List.map_cons, List.map_nil, beq_self_eq_true]

theorem addAll_values (acc : List KV) (k : Str) (h : k ∉ acc.map (·.1)) :
    ∀ (ws vs : List Str), addAll (acc ++ [(k, vs)]) (ws.map (fun v => (k, v))) = acc ++ [(k, vs ++ ws)]
  | [], vs => by simp [addAll]
  | w :: ws, vs => by
    have ih := addAll_values acc k h ws (vs ++ [w])
    unfold addAll at ih ⊢
    rw [List.map_cons, List.foldl_cons, add_old acc k vs w h, ih]
    simp

theorem addAll_key (acc : List KV) (k : Str) (h : k ∉ acc.map (·.1)) (ws : List Str) (hne : ws.isEmpty = false) :
    addAll acc (ws.map (fun v => (k, v))) = acc ++ [(k, ws)] := by
  cases ws with
  | nil => cases hne
  | cons w ws =>
    have := addAll_values acc k h ws [w]
    unfold addAll at this ⊢
    rw [List.map_cons, List.foldl_cons, add_new acc k w h, this]
    rfl

theorem addAll_append (acc : List KV) (a b : List (Str × Str)) : addAll acc (a ++ b) = addAll (addAll acc a) b := by
  simp [addAll]

/-- feeding the pairs of a dictionary (distinct keys, no empty value list) back rebuilds it -/
theorem addAll_pairs : ∀ (L acc : List KV), ((acc ++ L).map (·.1)).Nodup → (∀ p ∈ L, p.2.isEmpty = false) →
    addAll acc (pairsOf L) = acc ++ L
  | [], acc, _, _ => by simp [pairsOf, addAll]
  | p :: L, acc, hnd, hne => by
    have hk : p.1 ∉ acc.map (·.1) := by
      rw [List.map_append, List.map_cons] at hnd
      have := (List.nodup_append.1 hnd).2.2
      intro hin
      exact this _ hin _ List.mem_cons_self rfl
    have hnd' : (((acc ++ [p]) ++ L).map (·.1)).Nodup := by simpa using hnd
    have ih := addAll_pairs L (acc ++ [p]) hnd' (fun q hq => hne q (List.mem_cons_of_mem _ hq))
    have e : pairsOf (p :: L) = p.2.map (fun v => (p.1, v)) ++ pairsOf L := by simp [pairsOf]
    rw [e, addAll_append, addAll_key acc p.1 hk p.2 (hne p List.mem_cons_self), ih]
    simp

theorem kvsOK_all {l : List KV} (h : kvsOK l = true) :
    ∀ p ∈ l, keyOK p.1 = true ∧ p.2.isEmpty = false ∧ ∀ v ∈ p.2, cleanVal v = true := by
  unfold kvsOK at h
  rw [Bool.and_eq_true, List.all_eq_true] at h
  intro p hp
  have := h.1 p hp
  simp only [Bool.and_eq_true, Bool.not_eq_true', List.all_eq_true] at this
  exact ⟨this.1.1, this.1.2, this.2⟩

theorem kvsOK_nodup {l : List KV} (h : kvsOK l = true) : (l.map (·.1)).Nodup := by
  unfold kvsOK at h
  rw [Bool.and_eq_true, decide_eq_true_eq] at h
  exact h.2

theorem mem_pairsOf {l : List KV} {q : Str × Str} (h : q ∈ pairsOf l) : ∃ p ∈ l, q.1 = p.1 ∧ q.2 ∈ p.2 := by
  unfold pairsOf at h
  rw [List.mem_flatMap] at h
  obtain ⟨p, hp, hq⟩ := h
  rw [List.mem_map] at hq
  obtain ⟨v, hv, e⟩ := hq
  exact ⟨p, hp, by rw [← e], by rw [← e]; exact hv⟩

/-- the printed pairs of a well-formed dictionary: sorted keys, and `addValue` rebuilds the sorted dictionary -/
theorem addAll_sorted (kvs : List KV) (h : kvsOK kvs = true) : addAll [] (pairsOf (sortKeys kvs)) = sortKeys kvs := by
  have hs := kvsOK_sort h
  have := addAll_pairs (sortKeys kvs) [] (by simpa using kvsOK_nodup hs) (fun p hp => (kvsOK_all hs p hp).2.1)
  simpa using this

end ZCV.Roundtrip
