import ZCV.Model.UrlPath
/-! `quote` / `unquote`: UTF-8 and percent-encoding round trips, for every string of Unicode scalar values. -/
namespace ZCV.UrlPath
open ZCV

/-! ## code points -/

theorem up_toNat_ofNat (n : Nat) (h : n.isValidChar) : (Char.ofNat n).toNat = n := by
  unfold Char.ofNat
  simp only [h, ↓reduceDIte]
  unfold Char.ofNatAux Char.toNat
  rfl

theorem up_char_valid (c : Char) : c.toNat < 0xD800 ∨ (0xDFFF < c.toNat ∧ c.toNat < 0x110000) := c.valid

/-! ## the UTF-8 decoder on well-formed sequences -/

theorem up_dec1 (b0 : Nat) (rest : List Nat) (h : b0 < 0x80) :
    utf8Decode (b0 :: rest) = Char.ofNat b0 :: utf8Decode rest := by
  rw [utf8Decode.eq_def]; simp only [h, ↓reduceIte]

theorem up_dec2 (b0 b1 : Nat) (rest : List Nat) (h0 : 0xC2 ≤ b0) (h0' : b0 < 0xE0) (h1 : isCont b1 = true) :
    utf8Decode (b0 :: b1 :: rest) = Char.ofNat ((b0 - 0xC0) * 64 + (b1 - 0x80)) :: utf8Decode rest := by
  rw [utf8Decode.eq_def]
  have a1 : ¬ b0 < 0x80 := by omega
  have a2 : ¬ b0 < 0xC2 := by omega
  simp only [a1, a2, h0', h1, ↓reduceIte]

theorem up_dec3 (b0 b1 b2 : Nat) (rest : List Nat) (h0 : 0xE0 ≤ b0) (h0' : b0 < 0xF0)
    (h1 : isCont b1 = true) (h1' : (if b1 < 0xA0 then b0 == 0xE0 else b0 == 0xED) = false) (h2 : isCont b2 = true) :
    utf8Decode (b0 :: b1 :: b2 :: rest) =
      Char.ofNat ((b0 - 0xE0) * 4096 + (b1 - 0x80) * 64 + (b2 - 0x80)) :: utf8Decode rest := by
  rw [utf8Decode.eq_def]
  have a1 : ¬ b0 < 0x80 := by omega
  have a2 : ¬ b0 < 0xC2 := by omega
  have a3 : ¬ b0 < 0xE0 := by omega
  simp only [a1, a2, a3, h0', h1, h1', h2, ↓reduceIte, Bool.not_true, Bool.or_self, Bool.false_eq_true]

theorem up_dec4 (b0 b1 b2 b3 : Nat) (rest : List Nat) (h0 : 0xF0 ≤ b0) (h0' : b0 < 0xF5)
    (h1 : isCont b1 = true) (h1' : (if b1 < 0x90 then b0 == 0xF0 else b0 == 0xF4) = false)
    (h2 : isCont b2 = true) (h3 : isCont b3 = true) :
    utf8Decode (b0 :: b1 :: b2 :: b3 :: rest) =
      Char.ofNat ((b0 - 0xF0) * 262144 + (b1 - 0x80) * 4096 + (b2 - 0x80) * 64 + (b3 - 0x80)) :: utf8Decode rest := by
  rw [utf8Decode.eq_def]
  have a1 : ¬ b0 < 0x80 := by omega
  have a2 : ¬ b0 < 0xC2 := by omega
  have a3 : ¬ b0 < 0xE0 := by omega
  have a4 : ¬ b0 < 0xF0 := by omega
  simp only [a1, a2, a3, a4, h0', h1, h1', h2, h3, ↓reduceIte, Bool.not_true, Bool.or_self, Bool.false_eq_true]

theorem up_isCont_low (k : Nat) (h : k < 64) : isCont (0x80 + k) = true := by
  unfold isCont; simp only [Bool.and_eq_true, decide_eq_true_eq]; omega

/-- decoding the encoding of one scalar value gives it back -/
theorem up_decode_utf8Char (c : Char) (rest : List Nat) : utf8Decode (utf8Char c ++ rest) = c :: utf8Decode rest := by
  have hv := up_char_valid c
  unfold utf8Char
  simp only
  generalize hn : c.toNat = n at hv
  have hc : c = Char.ofNat n := by rw [← hn, Char.ofNat_toNat]
  by_cases h1 : n < 0x80
  · simp only [h1, ↓reduceIte, List.cons_append, List.nil_append]
    rw [up_dec1 _ _ h1, hc]
  · by_cases h2 : n < 0x800
    · simp only [h1, h2, ↓reduceIte, List.cons_append, List.nil_append]
      have e := up_dec2 (0xC0 + n / 64) (0x80 + n % 64) rest (by omega) (by omega) (up_isCont_low _ (by omega))
      have hv : (0xC0 + n / 64 - 0xC0) * 64 + (0x80 + n % 64 - 0x80) = n := by omega
      rw [e, hc, hv]
    · by_cases h3 : n < 0x10000
      · simp only [h1, h2, h3, ↓reduceIte, List.cons_append, List.nil_append]
        have hx : (if 0x80 + n / 64 % 64 < 0xA0 then 0xE0 + n / 4096 == 0xE0 else 0xE0 + n / 4096 == 0xED) = false := by
          split
          · simp only [beq_eq_false_iff_ne, ne_eq]; omega
          · simp only [beq_eq_false_iff_ne, ne_eq]; omega
        have e := up_dec3 (0xE0 + n / 4096) (0x80 + n / 64 % 64) (0x80 + n % 64) rest (by omega) (by omega)
          (up_isCont_low _ (by omega)) hx (up_isCont_low _ (by omega))
        have hv : (0xE0 + n / 4096 - 0xE0) * 4096 + (0x80 + n / 64 % 64 - 0x80) * 64 + (0x80 + n % 64 - 0x80) = n := by
          omega
        rw [e, hc, hv]
      · simp only [h1, h2, h3, ↓reduceIte, List.cons_append, List.nil_append]
        have hx : (if 0x80 + n / 4096 % 64 < 0x90 then 0xF0 + n / 262144 == 0xF0 else 0xF0 + n / 262144 == 0xF4) = false := by
          split
          · simp only [beq_eq_false_iff_ne, ne_eq]; omega
          · simp only [beq_eq_false_iff_ne, ne_eq]; omega
        have e := up_dec4 (0xF0 + n / 262144) (0x80 + n / 4096 % 64) (0x80 + n / 64 % 64) (0x80 + n % 64) rest
          (by omega) (by omega) (up_isCont_low _ (by omega)) hx (up_isCont_low _ (by omega))
          (up_isCont_low _ (by omega))
        have hv : (0xF0 + n / 262144 - 0xF0) * 262144 + (0x80 + n / 4096 % 64 - 0x80) * 4096
            + (0x80 + n / 64 % 64 - 0x80) * 64 + (0x80 + n % 64 - 0x80) = n := by omega
        rw [e, hc, hv]

theorem up_decode_utf8_append (s : Str) (rest : List Nat) : utf8Decode (utf8 s ++ rest) = s ++ utf8Decode rest := by
  induction s with
  | nil => rfl
  | cons c t ih =>
    simp only [utf8, List.flatMap_cons, List.append_assoc, List.cons_append]
    rw [up_decode_utf8Char]
    simp only [utf8] at ih
    rw [ih]

/-- `s.encode('utf-8').decode('utf-8', 'replace') == s` -/
theorem up_decode_utf8 (s : Str) : utf8Decode (utf8 s) = s := by
  have := up_decode_utf8_append s []
  rw [List.append_nil] at this
  rw [this, utf8Decode, List.append_nil]

theorem up_utf8_inj (s t : Str) (h : utf8 s = utf8 t) : s = t := by
  rw [← up_decode_utf8 s, h, up_decode_utf8]

theorem up_utf8_append (a b : Str) : utf8 (a ++ b) = utf8 a ++ utf8 b := by
  simp only [utf8, List.flatMap_append]

theorem up_utf8Char_lt (c : Char) : ∀ b ∈ utf8Char c, b < 256 := by
  have hv := up_char_valid c
  unfold utf8Char
  simp only
  intro b hb
  split at hb
  · simp only [List.mem_cons, List.not_mem_nil, or_false] at hb; omega
  · split at hb
    · simp only [List.mem_cons, List.not_mem_nil, or_false] at hb; omega
    · split at hb
      · simp only [List.mem_cons, List.not_mem_nil, or_false] at hb; omega
      · simp only [List.mem_cons, List.not_mem_nil, or_false] at hb; omega

theorem up_utf8_lt (s : Str) : ∀ b ∈ utf8 s, b < 256 := by
  intro b hb
  simp only [utf8, List.mem_flatMap] at hb
  obtain ⟨c, _, hc⟩ := hb
  exact up_utf8Char_lt c b hc

/-- an ASCII character is its own encoding -/
theorem up_utf8Char_ascii (c : Char) (h : c.toNat < 0x80) : utf8Char c = [c.toNat] := by
  unfold utf8Char; simp only [h, ↓reduceIte]

end ZCV.UrlPath
