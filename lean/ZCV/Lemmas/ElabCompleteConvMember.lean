import ZCV.Lemmas.ElabCompleteConvLeaf
/-!
C10, converse of completeness, step 3: a `<key>` / `<multikey>` / `<section>` / `<multisection>` element that is read
successfully obeys the rules for such an element.
-/
namespace ZCV.SchemaRules
open ZCV ZCV.Elab
open ZCV.Cfg (VI SectInfo Default)

/-! ### uniqueness, backwards -/

theorem notDup_keyFree {ms : List Member} {ch : List (Option Str × EInfo)} {key : Option Str}
    (h : Pointwise MemberRel ms ch) (hf : ¬ DupKey ch key) : keyFree ms key = true := by
  unfold keyFree
  cases ht : truthyKey key with
  | false => rfl
  | true =>
    simp only [Bool.true_and, Bool.not_eq_true', List.any_eq_false, beq_iff_eq]
    intro m hm hk
    apply hf
    refine ⟨ht, ?_⟩
    rw [← members_keys h]
    exact List.mem_map.2 ⟨m, hm, hk⟩

theorem notDup_attrFree {ms : List Member} {ch : List (Option Str × EInfo)} {x : Str}
    (h : Pointwise MemberRel ms ch) (hx : x ≠ []) (hf : ¬ DupAttr ch x) : attrFree ms x = true := by
  unfold attrFree
  simp only [Bool.not_eq_true', List.any_eq_false, beq_iff_eq]
  intro m hm hk
  apply hf
  refine ⟨hx, ?_⟩
  rw [← members_attrs h]
  exact List.mem_map.2 ⟨m, hm, hk⟩

/-! ### `get_key_info`, backwards -/

theorem getKeyInfo_ok_rules {env : Env} {st : PSt} {kt pfx : Str} {ps : List Str} {a : Attrs}
    {r : Str × Str × Option Str × Str}
    (hkt : topKeytype st = .ok kt) (hp : st.prefixes = pfx :: ps) (h : getKeyInfo env st a = .ok r) :
    nameGiven a none = true ∧ (nameOf a none != ['*']) = true ∧ attributeWF a = true ∧
      wildHasAttr a (nameOf a none) = true ∧ fixedNameOK env kt a (nameOf a none) = true ∧
      (!(keyNameOf env kt a).isEmpty) = true ∧ dtAttrOK env pfx a "datatype" = true ∧ handlerOK a = true := by
  unfold getKeyInfo at h
  obtain ⟨r0, hni, h⟩ := er_bind_ok h
  obtain ⟨r1, r2, r3, r4⟩ := getNameInfo_ok_rules hkt hni
  rw [getNameInfo_of_rules hkt r1 r2 r3 r4] at hni
  injection hni with hni
  subst hni
  unfold nameInfoOf at h
  by_cases hw : isWild (nameOf a none) = true
  · simp only [hw, ↓reduceIte] at h
    by_cases hstar : nameOf a none = ['*']
    · simp only [hstar, beq_self_eq_true, ↓reduceIte, serr, bind, Except.bind] at h
      cases h
    · have hplus : nameOf a none = ['+'] := by
        rcases (isWild_iff _).1 hw with h1 | h1
        · exact absurd h1 hstar
        · exact h1
      have h1 : (some (nameOf a none) == some ['*']) = false := by simpa using hstar
      have h2 : (some (nameOf a none) != some ['+']) = false := by simp [hplus]
      simp only [h1, h2, Bool.false_eq_true, ↓reduceIte, Bool.not_false, Bool.and_false] at h
      obtain ⟨dt, hdt, h⟩ := er_bind_ok h
      obtain ⟨hd, hhd, h⟩ := er_bind_ok h
      refine ⟨r1, by simpa using hstar, r2, r3, r4, ?_, getDatatype_ok_rules hp hdt, getHandler_ok_rules hhd⟩
      unfold keyNameOf
      rw [storedName_wild hw, hplus]; rfl
  · have hw' : isWild (nameOf a none) = false := by simpa using hw
    simp only [hw', Bool.false_eq_true, ↓reduceIte] at h
    have hstar : nameOf a none ≠ ['*'] := fun e => hw ((isWild_iff _).2 (Or.inl e))
    have h1 : ((none : Option Str) == some ['*']) = false := rfl
    have h2 : ((none : Option Str) != some ['+']) = true := rfl
    simp only [h1, h2, Bool.false_eq_true, ↓reduceIte, Bool.and_true] at h
    cases hs : (storedName env kt (nameOf a none)).getD [] with
    | nil =>
      rw [hs] at h
      simp only [Bool.not_false, ↓reduceIte, serr, bind, Except.bind] at h
      cases h
    | cons c cs =>
      rw [hs] at h
      simp only [Bool.not_true, Bool.false_eq_true, ↓reduceIte] at h
      obtain ⟨dt, hdt, h⟩ := er_bind_ok h
      obtain ⟨hd, hhd, h⟩ := er_bind_ok h
      refine ⟨r1, by simpa using hstar, r2, r3, r4, ?_, getDatatype_ok_rules hp hdt, getHandler_ok_rules hhd⟩
      unfold keyNameOf
      rw [hs]; rfl

/-! ### default keys under a key type, backwards -/

theorem conv_normKey {env : Env} {kt k r : Str} (h : convDefaultKey env kt k = .ok r) : normKey env kt k = some r := by
  unfold convDefaultKey at h
  unfold normKey
  cases hk : env.conv.key kt k with
  | ok r' => rw [hk] at h; injection h with h; rw [h]
  | error e => rw [hk] at h; cases e <;> cases h

theorem normKeys_ok_rules (env : Env) (kt : Str) :
    ∀ (m : List (Str × VI)) (ks : List Str), normKeys env kt m = .ok ks →
      (m.map (·.1)).map (normKey env kt) = ks.map some
  | [], ks, h => by
    simp only [normKeys, List.mapM_nil, pure, Except.pure, Except.ok.injEq] at h
    subst h; rfl
  | p :: m, ks, h => by
    obtain ⟨k, ks', h1, h2, rfl⟩ := mapM_ok_cons _ p m ks h
    rw [List.map_cons, List.map_cons, List.map_cons, conv_normKey h1, normKeys_ok_rules env kt m ks' h2]

theorem nodup_map_some {α} : ∀ {l : List α}, l.Nodup → (l.map some).Nodup
  | [], _ => List.nodup_nil
  | a :: l, h => by
    rw [List.nodup_cons] at h
    rw [List.map_cons, List.nodup_cons]
    refine ⟨?_, nodup_map_some h.2⟩
    intro hm
    obtain ⟨b, hb, e⟩ := List.mem_map.1 hm
    injection e with e
    subst e
    exact h.1 hb

theorem foldlM_ok_each {ε α β} (f : β → α → Except ε β) :
    ∀ (l : List α) (init r : β), l.foldlM f init = .ok r → ∀ a ∈ l, ∃ b b', f b a = .ok b'
  | [], _, _, _, a, ha => by cases ha
  | x :: l, init, r, h, a, ha => by
    rw [List.foldlM_cons] at h
    obtain ⟨b1, h1, h2⟩ := er_bind_ok h
    rcases List.mem_cons.1 ha with rfl | ha
    · exact ⟨init, b1, h1⟩
    · exact foldlM_ok_each f l b1 r h2 a ha

/-- `computedefault` succeeded on a `+` key: its default keys obey rule 8 under that key type -/
theorem computeDefault_ok_rules {env : Env} {kt : Str} {k k' : EKey} {keys : List Str} (hn : k.name = ['+'])
    (hrel : PlusRel (some (k.multi, keys)) k) (h : computeDefault env kt k = .ok k') :
    defaultKeysOK env kt k.multi keys = true := by
  unfold PlusRel at hrel
  rw [if_pos hn] at hrel
  obtain ⟨keys', hk', hs, hm⟩ := hrel
  injection hk' with hk'
  injection hk' with _ hk'
  subst hk'
  unfold defaultKeysOK
  by_cases hmulti : k.multi = true
  · obtain ⟨m, hraw, hset⟩ := hm hmulti
    rw [hmulti]
    simp only [Bool.true_or, Bool.and_true, List.all_eq_true]
    intro x hx
    obtain ⟨p, hp, hpx⟩ := List.mem_map.1 ((hset x).2 hx)
    unfold computeDefault at h
    rw [if_neg (by simp [hn])] at h
    simp only [hraw] at h
    obtain ⟨b, b', hstep⟩ := foldlM_ok_each _ m _ _ h p hp
    obtain ⟨key, hkey, _⟩ := er_bind_ok hstep
    rw [← hpx, conv_normKey hkey]; rfl
  · have hmulti' : k.multi = false := by simpa using hmulti
    obtain ⟨m, hraw, hkeys⟩ := hs hmulti'
    obtain ⟨ks, h1, h2, _⟩ := computeDefault_single_ok hn hmulti' hraw h
    have h3 := normKeys_ok_rules env kt m ks h1
    rw [hkeys] at h3
    rw [hmulti']
    simp only [Bool.false_or, Bool.and_eq_true, decide_eq_true_eq, List.all_eq_true]
    refine ⟨?_, by rw [h3]; exact nodup_map_some h2⟩
    intro x hx
    have : normKey env kt x ∈ keys.map (normKey env kt) := List.mem_map.2 ⟨x, hx, rfl⟩
    rw [h3] at this
    obtain ⟨y, _, hy⟩ := List.mem_map.1 this
    rw [← hy]; rfl

/-! ### `<key>`, backwards -/

theorem keyStart_of_attr {nm dt at_ : Str} {hd : Option Str} {a : Attrs}
    (hA : ∀ d, attr a "default" = some d → isRequired a = false ∧ nm ≠ ['+']) :
    ∃ k1, keyStart (nm, dt, hd, at_) (isRequired a) a = .ok k1 ∧ KeyObj nm at_ (isRequired a) k1 ∧
      k1.finished = false := by
  unfold keyStart
  cases hda : attr a "default" with
  | none =>
    refine ⟨newKey (nm, dt, hd, at_) (isRequired a) false, rfl, ⟨rfl, rfl, rfl, rfl, rfl, rfl, rfl, ?_⟩, rfl⟩
    intro hplus
    simp [newKey, hplus]
  | some d =>
    obtain ⟨hnr, hnp⟩ := hA d hda
    simp only [hnr, Bool.false_eq_true, ↓reduceIte]
    have hnk : (newKey (nm, dt, hd, at_) false false).name ≠ ['+'] := hnp
    rw [addDefault_wellkeyed _ _ none rfl (by simp [hnk])]
    have hav : addValueInfo (newKey (nm, dt, hd, at_) false false) { value := strip d, pos := defaultPos } none =
        .ok { newKey (nm, dt, hd, at_) false false with dflt := .one { value := strip d, pos := defaultPos } } := by
      unfold addValueInfo
      have : (nm == ['+']) = false := by simpa using hnp
      simp [newKey, this]
    rw [hav]
    exact ⟨_, rfl, ⟨rfl, rfl, rfl, rfl, rfl, rfl, rfl, fun hplus => absurd hplus hnp⟩, rfl⟩

theorem keyStart_ok_attr {r : Str × Str × Option Str × Str} {req : Bool} {a : Attrs} {k1 : EKey}
    (h : keyStart r req a = .ok k1) : ∀ d, attr a "default" = some d → req = false ∧ r.1 ≠ ['+'] := by
  intro d hd
  unfold keyStart at h
  rw [hd] at h
  simp only at h
  cases req with
  | true => simp only [↓reduceIte] at h; cases h
  | false =>
    simp only [Bool.false_eq_true, ↓reduceIte] at h
    refine ⟨rfl, ?_⟩
    intro hplus
    have := (addDefault_ok h).2.1.1 (show (newKey r false false).name = ['+'] from hplus)
    cases this

/-- the facts about the defaults that the rules state, from what the body lemma gives -/
theorem defaultRules_of_body {isC : Bool} {k2 : EKey} {nm : Str} {a : Attrs} {c : List Node} {multi : Bool}
    (hname : k2.name = nm) (hmulti : k2.multi = multi) (hmin : k2.minOccurs = (if isRequired a then 1 else 0))
    (hA : ∀ d, attr a "default" = some d → isRequired a = false ∧ nm ≠ ['+'])
    (hM : multi = true → attr a "default" = none)
    (hpre : KeyBodyPre isC k2 c) :
    noDefaultIfRequired a c = true ∧ defaultKeying nm a c = true ∧ defaultPlacement multi nm a c = true := by
  refine ⟨?_, ?_, ?_⟩
  · unfold noDefaultIfRequired
    cases hr : isRequired a with
    | false => rfl
    | true =>
      simp only [Bool.not_true, Bool.false_or, Bool.and_eq_true, Option.isNone_iff_eq_none, List.isEmpty_iff]
      constructor
      · cases hd : attr a "default" with
        | none => rfl
        | some d => have := (hA d hd).1; rw [hr] at this; cases this
      · cases hde : defaultElems c with
        | nil => rfl
        | cons x xs =>
          have := (hpre.open_ (by rw [hde]; exact List.cons_ne_nil _ _)).1
          rw [hmin, hr] at this
          cases this
  · unfold defaultKeying
    by_cases hplus : nm = ['+']
    · have : (nm == ['+']) = true := by simp [hplus]
      rw [this]
      simp only [↓reduceIte, Bool.and_eq_true, Option.isNone_iff_eq_none]
      refine ⟨?_, hpre.keyed (by rw [hname]; exact hplus)⟩
      cases hd : attr a "default" with
      | none => rfl
      | some d => exact absurd hplus (hA d hd).2
    · have : (nm == ['+']) = false := by simpa using hplus
      rw [this]
      simp only [Bool.false_eq_true, ↓reduceIte]
      exact hpre.unkeyed (by rw [hname]; exact hplus)
  · unfold defaultPlacement
    cases multi with
    | true =>
      simp only [↓reduceIte, Option.isNone_iff_eq_none]
      exact hM rfl
    | false =>
      simp only [Bool.false_eq_true, ↓reduceIte, Bool.or_eq_true, beq_iff_eq, List.isEmpty_iff]
      by_cases hplus : nm = ['+']
      · exact Or.inl hplus
      · exact Or.inr (hpre.fixedSingle (by rw [hname]; exact hplus) hmulti)

/-- **a `<key>` element that is read successfully obeys the rules** -/
theorem keyElem_inv {env : Env} {h : Hooks} {d : DocKind} {parent pfx kt : Str} {ps : List Str} {st st' : PSt}
    {ch : List (Option Str × EInfo)} {ms : List Member} {a : Attrs} {c : List Node}
    (hch : topOf st.es st.stack = .ok ch) (hkt : ktOf st.es st.stack = .ok kt) (hp : st.prefixes = pfx :: ps)
    (hms : Pointwise MemberRel ms ch)
    (hv : visitElem env h d (some parent) st (.elem "key".toList a c) = .ok st') :
    nestingOK parent "key".toList = true ∧ keyOK env (!isComp d) pfx kt ms false a c = true := by
  have hn := check_nestingOK (visitElem_ok_nesting hv)
  refine ⟨hn, ?_⟩
  rw [visitElem_handled hn (by decide +kernel), startHandled_key] at hv
  obtain ⟨st1, hs1, hv⟩ := er_bind_ok hv
  obtain ⟨st2, hs2, hv3⟩ := er_bind_ok hv
  rw [startKey_eq'] at hs1
  obtain ⟨r, hki, hs1⟩ := er_bind_ok hs1
  obtain ⟨req, hreq, hs1⟩ := er_bind_ok hs1
  obtain ⟨k1, hk1, htail⟩ := er_bind_ok hs1
  have hkt' : topKeytype st = .ok kt := by rw [topKeytype_ktOf]; exact hkt
  obtain ⟨r1, rstar, r2, r3, r4, r5, r6, r7⟩ := getKeyInfo_ok_rules hkt' hp hki
  obtain ⟨dt, hd, hki'⟩ := getKeyInfo_of_rules hkt' hp r1 rstar r2 r3 r4 r5 r6 r7
  rw [hki'] at hki
  injection hki with hki
  subst hki
  have r8 := getRequired_ok_rules hreq
  rw [getRequired_of_rules r8] at hreq
  injection hreq with hreq
  subst hreq
  generalize hnm : keyNameOf env kt a = nm at *
  have hnm' : (storedName env kt (nameOf a none)).getD [] = nm := hnm
  have hA := keyStart_ok_attr hk1
  simp only at hA
  obtain ⟨k1', hk1', ho1, hf1⟩ := keyStart_of_attr (nm := nm) (dt := dt) (at_ := attrOf a nm) (hd := hd) hA
  rw [hk1'] at hk1
  injection hk1 with hk1
  subst hk1
  -- the container accepted the new child
  have hdup : ¬ DupKey ch (some nm) ∧ ¬ DupAttr ch (attrOf a nm) := by
    unfold keyTail at htail
    obtain ⟨k2, hk2, htail⟩ := er_bind_ok htail
    obtain ⟨st0, hadd, _⟩ := er_bind_ok htail
    obtain ⟨ch', hch', h1, h2, _⟩ := addChild_ok hadd
    rw [topChildren_eq, hch] at hch'
    injection hch' with hch'
    subst hch'
    refine ⟨h1, ?_⟩
    have : (EInfo.key k2).attr = attrOf a nm := by
      show k2.attr = _
      split at hk2
      · rw [finishKey_eq hk2]; exact ho1.attr
      · injection hk2 with hk2; rw [← hk2]; exact ho1.attr
    rw [this] at h2
    exact h2
  have rkey := notDup_keyFree hms hdup.1
  have hane : attrOf a nm ≠ [] := by rw [← hnm']; exact attrOf_ne_nil r3 r4
  have rattr := notDup_attrFree hms hane hdup.2
  obtain ⟨k2, ⟨f1, f2, f3, f4, f5, f6, f7, f9⟩, f8, htail'⟩ := keyTail_of_rules hch hms ho1 hf1 rkey rattr
  rw [htail'] at htail
  injection htail with htail
  subst htail
  -- the body
  have hshape : DfltShape k2 :=
    ⟨fun hplus _ => ⟨[], f9 (by rw [← f1]; exact hplus), List.nodup_nil⟩,
     fun _ hc => (by rw [f3] at hc; cases hc), fun _ hc => (by rw [f3] at hc; cases hc)⟩
  have hfs : k2.name ≠ ['+'] → k2.multi = false → k2.finished = true := by
    intro hplus _
    rw [f8]
    rw [f1] at hplus
    simpa using hplus
  obtain ⟨rbody, hpre⟩ := keyBody_inv (env := env) (h := h) leafParent_key st.stack c _ st2 k2 rfl hshape hfs hs2
  obtain ⟨rreq, rkeying, rplace⟩ := defaultRules_of_body (multi := false) f1 f3 f7 hA (fun hc => by cases hc) hpre
  have ronce : onceOK (!isComp d) c = true := onceOK_of_left (by rw [← f5]; exact hpre.desc) (by rw [← f6]; exact hpre.ex)
  -- the end tag
  have rdk : (nm != ['+'] || defaultKeysOK env kt false (plusKeys c)) = true := by
    by_cases hplus : nm = ['+']
    · have : (nm != ['+']) = false := by simp [hplus]
      rw [this, Bool.false_or]
      obtain ⟨bd, be, d', hbody, hafter⟩ := keyBody_ok (env := env) (h := h) (parent := "key".toList) st.stack c
        { st with es := setTopOf st.es st.stack (ch ++ [(some nm, .key k2)]), stack := .key k2 :: st.stack } k2 rfl
        rbody hpre
      rw [hbody] at hs2
      injection hs2 with hs2
      subst hs2
      have hend : endHandled env "key".toList = endKey env := by funext s; rfl
      rw [hend, endKey_eq_obj (k := { k2 with hasDesc := bd, hasEx := be, dflt := d' }) (rest := st.stack) rfl] at hv3
      obtain ⟨k4, hk4, _⟩ := er_bind_ok hv3
      simp only at hk4
      rw [ktOf_setTopOf, hkt] at hk4
      have hrel3 := plusRel_after (k2 := k2) (c := c) (d' := d') bd be f4
        (fun hplus _ => f9 (by rw [← f1]; exact hplus)) (fun _ hc => (by rw [f3] at hc; cases hc)) hafter
      have hk3n : ({ k2 with hasDesc := bd, hasEx := be, dflt := d' } : EKey).name = ['+'] := by
        show k2.name = _
        rw [f1]; exact hplus
      unfold endKeyObj at hk4
      have hb3 : (({ k2 with hasDesc := bd, hasEx := be, dflt := d' } : EKey).name == ['+']) = true := by
        show (k2.name == _) = true
        rw [f1, hplus]; rfl
      rw [if_pos hb3] at hk4
      obtain ⟨kt', hkt2, hk4⟩ := er_bind_ok hk4
      injection hkt2 with hkt2
      subst hkt2
      obtain ⟨k5, hcd, _⟩ := er_bind_ok hk4
      have hk2n : (k2.name == ['+']) = true := by rw [f1]; simp [hplus]
      rw [hk2n] at hrel3
      simp only [↓reduceIte] at hrel3
      have := computeDefault_ok_rules hk3n hrel3 hcd
      rw [show ({ k2 with hasDesc := bd, hasEx := be, dflt := d' } : EKey).multi = k2.multi from rfl, f3] at this
      exact this
    · have : (nm != ['+']) = true := by simpa using hplus
      rw [this]; rfl
  unfold keyOK
  simp only [Bool.and_eq_true, Bool.false_eq_true, ↓reduceIte]
  rw [hnm']
  exact ⟨⟨⟨⟨⟨⟨⟨⟨⟨⟨⟨⟨⟨⟨⟨⟨r1, rstar⟩, r2⟩, r3⟩, r4⟩, r5⟩, r6⟩, r7⟩, r8⟩, rkey⟩, rattr⟩, rreq⟩, rkeying⟩, rplace⟩, rdk⟩, rbody⟩,
    ronce⟩

/-! ### `<multikey>`, backwards -/

/-- **a `<multikey>` element that is read successfully obeys the rules** -/
theorem multikeyElem_inv {env : Env} {h : Hooks} {d : DocKind} {parent pfx kt : Str} {ps : List Str} {st st' : PSt}
    {ch : List (Option Str × EInfo)} {ms : List Member} {a : Attrs} {c : List Node}
    (hch : topOf st.es st.stack = .ok ch) (hkt : ktOf st.es st.stack = .ok kt) (hp : st.prefixes = pfx :: ps)
    (hms : Pointwise MemberRel ms ch)
    (hv : visitElem env h d (some parent) st (.elem "multikey".toList a c) = .ok st') :
    nestingOK parent "multikey".toList = true ∧ keyOK env (!isComp d) pfx kt ms true a c = true := by
  have hn := check_nestingOK (visitElem_ok_nesting hv)
  refine ⟨hn, ?_⟩
  rw [visitElem_handled hn (by decide +kernel), startHandled_multikey] at hv
  obtain ⟨st1, hs1, hv⟩ := er_bind_ok hv
  obtain ⟨st2, hs2, hv3⟩ := er_bind_ok hv
  rw [startMultikey_eq] at hs1
  have hnod : hasAttr a "default" = false := by
    cases hx : hasAttr a "default" with
    | false => rfl
    | true => rw [hx] at hs1; cases hs1
  have hM : attr a "default" = none := by
    unfold hasAttr at hnod
    cases hx : attr a "default" with
    | none => rfl
    | some v => rw [hx] at hnod; cases hnod
  rw [hnod] at hs1
  simp only [Bool.false_eq_true, ↓reduceIte] at hs1
  obtain ⟨r, hki, hs1⟩ := er_bind_ok hs1
  obtain ⟨req, hreq, hs1⟩ := er_bind_ok hs1
  obtain ⟨st0, hadd, hs1⟩ := er_bind_ok hs1
  have hkt' : topKeytype st = .ok kt := by rw [topKeytype_ktOf]; exact hkt
  obtain ⟨r1, rstar, r2, r3, r4, r5, r6, r7⟩ := getKeyInfo_ok_rules hkt' hp hki
  obtain ⟨dt, hd, hki'⟩ := getKeyInfo_of_rules hkt' hp r1 rstar r2 r3 r4 r5 r6 r7
  rw [hki'] at hki
  injection hki with hki
  subst hki
  have r8 := getRequired_ok_rules hreq
  rw [getRequired_of_rules r8] at hreq
  injection hreq with hreq
  subst hreq
  generalize hnm : keyNameOf env kt a = nm at *
  have hnm' : (storedName env kt (nameOf a none)).getD [] = nm := hnm
  generalize hk2 : newKey (nm, dt, hd, attrOf a nm) (isRequired a) true = k2 at *
  have f1 : k2.name = nm := by rw [← hk2]; rfl
  have f2 : k2.attr = attrOf a nm := by rw [← hk2]; rfl
  have f3 : k2.multi = true := by rw [← hk2]; rfl
  have f4 : k2.raw = none := by rw [← hk2]; rfl
  have f5 : k2.hasDesc = false := by rw [← hk2]; rfl
  have f6 : k2.hasEx = false := by rw [← hk2]; rfl
  have f7 : k2.minOccurs = (if isRequired a then 1 else 0) := by rw [← hk2]; rfl
  have f8 : k2.finished = false := by rw [← hk2]; rfl
  have f9 : nm = ['+'] → k2.dflt = .keyedMany [] := by
    intro hplus; rw [← hk2]; simp [newKey, hplus]
  have f10 : nm ≠ ['+'] → k2.dflt = .many [] := by
    intro hplus
    have : (nm == ['+']) = false := by simpa using hplus
    rw [← hk2]; simp [newKey, this]
  -- the container accepted the new child
  obtain ⟨ch', hch', hd1, hd2, hst0⟩ := addChild_ok hadd
  rw [topChildren_eq, hch] at hch'
  injection hch' with hch'
  subst hch'
  have hd2' : ¬ DupAttr ch (attrOf a nm) := by
    have : (EInfo.key k2).attr = attrOf a nm := f2
    rw [← this]; exact hd2
  have rkey := notDup_keyFree hms hd1
  have hane : attrOf a nm ≠ [] := by rw [← hnm']; exact attrOf_ne_nil r3 r4
  have rattr := notDup_attrFree hms hane hd2'
  subst hst0
  simp only [pure, Except.pure, Except.ok.injEq] at hs1
  subst hs1
  rw [setTopChildren_eq] at hs2
  -- the body
  have hshape : DfltShape k2 :=
    ⟨fun _ hc => (by rw [f3] at hc; cases hc), fun hplus _ => ⟨[], f9 (by rw [← f1]; exact hplus)⟩,
     fun hplus _ => ⟨[], f10 (by rw [← f1]; exact hplus)⟩⟩
  have hfs : k2.name ≠ ['+'] → k2.multi = false → k2.finished = true := fun _ hc => (by rw [f3] at hc; cases hc)
  obtain ⟨rbody, hpre⟩ := keyBody_inv (env := env) (h := h) leafParent_multikey st.stack c _ st2 k2
    rfl hshape hfs hs2
  obtain ⟨rreq, rkeying, rplace⟩ := defaultRules_of_body (multi := true) f1 f3 f7
    (fun d hd => by rw [hM] at hd; cases hd) (fun _ => hM) hpre
  have ronce : onceOK (!isComp d) c = true := onceOK_of_left (by rw [← f5]; exact hpre.desc) (by rw [← f6]; exact hpre.ex)
  -- the end tag
  have rdk : (nm != ['+'] || defaultKeysOK env kt true (plusKeys c)) = true := by
    by_cases hplus : nm = ['+']
    · have : (nm != ['+']) = false := by simp [hplus]
      rw [this, Bool.false_or]
      obtain ⟨bd, be, d', hbody, hafter⟩ := keyBody_ok (env := env) (h := h) (parent := "multikey".toList) st.stack c
        { st with es := setTopOf st.es st.stack (ch ++ [(some nm, .key k2)]), stack := .key k2 :: st.stack } k2 rfl
        rbody hpre
      have hs2' : visitChildren env h d "multikey".toList
          { st with es := setTopOf st.es st.stack (ch ++ [(some nm, .key k2)]), stack := .key k2 :: st.stack } c =
          .ok st2 := by
        rw [← hs2]
      rw [hbody] at hs2'
      injection hs2' with hs2'
      subst hs2'
      have hend : endHandled env "multikey".toList = endMultikey env := by funext s; rfl
      rw [hend, endMultikey_eq_obj (k := { k2 with hasDesc := bd, hasEx := be, dflt := d' }) (rest := st.stack) rfl] at hv3
      obtain ⟨k4, hk4, _⟩ := er_bind_ok hv3
      simp only at hk4
      rw [ktOf_setTopOf, hkt] at hk4
      have hrel3 := plusRel_after (k2 := k2) (c := c) (d' := d') bd be f4
        (fun _ hc => (by rw [f3] at hc; cases hc)) (fun hplus _ => f9 (by rw [← f1]; exact hplus)) hafter
      have hk3n : ({ k2 with hasDesc := bd, hasEx := be, dflt := d' } : EKey).name = ['+'] := by
        show k2.name = _
        rw [f1]; exact hplus
      unfold endMultikeyObj at hk4
      have hb3 : (({ k2 with hasDesc := bd, hasEx := be, dflt := d' } : EKey).name == ['+']) = true := by
        show (k2.name == _) = true
        rw [f1, hplus]; rfl
      rw [if_pos hb3] at hk4
      obtain ⟨k5, hk5, _⟩ := er_bind_ok hk4
      obtain ⟨kt', hkt2, hcd⟩ := er_bind_ok hk5
      injection hkt2 with hkt2
      subst hkt2
      have hk2n : (k2.name == ['+']) = true := by rw [f1]; simp [hplus]
      rw [hk2n] at hrel3
      simp only [↓reduceIte] at hrel3
      have := computeDefault_ok_rules hk3n hrel3 hcd
      rw [show ({ k2 with hasDesc := bd, hasEx := be, dflt := d' } : EKey).multi = k2.multi from rfl, f3] at this
      exact this
    · have : (nm != ['+']) = true := by simpa using hplus
      rw [this]; rfl
  unfold keyOK
  simp only [Bool.and_eq_true, ↓reduceIte]
  rw [hnm']
  exact ⟨⟨⟨⟨⟨⟨⟨⟨⟨⟨⟨⟨⟨⟨⟨⟨r1, rstar⟩, r2⟩, r3⟩, r4⟩, r5⟩, r6⟩, r7⟩, r8⟩, rkey⟩, rattr⟩, rreq⟩, rkeying⟩, rplace⟩, rdk⟩, rbody⟩,
    ronce⟩

/-! ### `<section>`, `<multisection>`, backwards -/

theorem getSectiontype_ok_rules {st : PSt} {names : List Str} {a : Attrs} {ty : Str} (hnames : st.es.typeNames = names)
    (h : getSectiontype st a = .ok ty) : typeRefOK names a = true := by
  unfold typeRefOK
  rcases getSectiontype_cases st a with ⟨_, h1⟩ | ⟨_, _, _, _, h1⟩ | ⟨v, ha, hv, hm, _⟩
  · rw [h1] at h; cases h
  · rw [h1] at h; cases h
  · rw [ha]
    cases v with
    | nil => exact absurd rfl hv
    | cons c cs =>
      simp only
      rw [← hnames]
      exact List.contains_iff_mem.mpr hm

theorem startSectionObj_ok_rules {env : Env} {st : PSt} {kt : Str} {names : List Str} {a : Attrs}
    {p : Option Str × SectInfo} (hkt : topKeytype st = .ok kt) (hnames : st.es.typeNames = names)
    (h : startSectionObj (getSectiontype st a) (getNameInfo env st a (some ['*'])) a = .ok p) :
    typeRefOK names a = true ∧ handlerOK a = true ∧ requiredOK a = true ∧ nameGiven a (some ['*']) = true ∧
      attributeWF a = true ∧ wildHasAttr a (nameOf a (some ['*'])) = true ∧
      fixedNameOK env kt a (nameOf a (some ['*'])) = true ∧
      (isWild (nameOf a (some ['*'])) || !isWild (sectNameOf env kt a)) = true := by
  unfold startSectionObj at h
  obtain ⟨ty, hty, h⟩ := er_bind_ok h
  obtain ⟨hd, hhd, h⟩ := er_bind_ok h
  obtain ⟨req, hreq, h⟩ := er_bind_ok h
  obtain ⟨r0, hni, h⟩ := er_bind_ok h
  obtain ⟨r4, r5, r6, r7⟩ := getNameInfo_ok_rules hkt hni
  refine ⟨getSectiontype_ok_rules hnames hty, getHandler_ok_rules hhd, getRequired_ok_rules hreq, r4, r5, r6, r7, ?_⟩
  rw [getNameInfo_of_rules hkt r4 r5 r6 r7] at hni
  injection hni with hni
  subst hni
  unfold nameInfoOf at h
  by_cases hw : isWild (nameOf a (some ['*'])) = true
  · rw [hw]; rfl
  · have hw' : isWild (nameOf a (some ['*'])) = false := by simpa using hw
    rw [hw', Bool.false_or]
    simp only [hw', Bool.false_eq_true, ↓reduceIte] at h
    cases hs : isWild (sectNameOf env kt a) with
    | false => rfl
    | true =>
      exfalso
      have hc := (isWild_iff _).1 hs
      unfold sectNameOf at hc
      rcases hc with hc | hc
      · rw [hc] at h
        simp only [beq_self_eq_true, Bool.true_or, ↓reduceIte, bind, Except.bind] at h
        cases h
      · rw [hc] at h
        simp only [beq_self_eq_true, Bool.or_true, ↓reduceIte, bind, Except.bind] at h
        cases h

theorem startMultisectionObj_ok_rules {env : Env} {st : PSt} {kt : Str} {names : List Str} {a : Attrs}
    {p : Option Str × SectInfo} (hkt : topKeytype st = .ok kt) (hnames : st.es.typeNames = names)
    (h : startMultisectionObj (getSectiontype st a) (getNameInfo env st a (some ['*'])) a = .ok p) :
    typeRefOK names a = true ∧ handlerOK a = true ∧ requiredOK a = true ∧ nameGiven a (some ['*']) = true ∧
      attributeWF a = true ∧ wildHasAttr a (nameOf a (some ['*'])) = true ∧
      fixedNameOK env kt a (nameOf a (some ['*'])) = true ∧
      (isWild (nameOf a (some ['*'])) && Gen.multisectionNames.contains (nameOf a (some ['*']))) = true := by
  unfold startMultisectionObj at h
  obtain ⟨ty, hty, h⟩ := er_bind_ok h
  obtain ⟨req, hreq, h⟩ := er_bind_ok h
  obtain ⟨r0, hni, h⟩ := er_bind_ok h
  obtain ⟨r4, r5, r6, r7⟩ := getNameInfo_ok_rules hkt hni
  rw [getNameInfo_of_rules hkt r4 r5 r6 r7] at hni
  injection hni with hni
  subst hni
  unfold nameInfoOf at h
  by_cases hw : isWild (nameOf a (some ['*'])) = true
  · simp only [hw, ↓reduceIte] at h
    cases hmn : Gen.multisectionNames.contains (nameOf a (some ['*'])) with
    | false =>
      rw [hmn] at h
      simp only [Bool.not_false, ↓reduceIte, serr, bind, Except.bind] at h
      cases h
    | true =>
      rw [hmn] at h
      simp only [Bool.not_true, Bool.false_eq_true, ↓reduceIte] at h
      obtain ⟨hd, hhd, _⟩ := er_bind_ok h
      refine ⟨getSectiontype_ok_rules hnames hty, getHandler_ok_rules hhd, getRequired_ok_rules hreq, r4, r5, r6, r7, ?_⟩
      rw [hw]; rfl
  · have hw' : isWild (nameOf a (some ['*'])) = false := by simpa using hw
    simp only [hw', Bool.false_eq_true, ↓reduceIte] at h
    cases h

/-- the flow through a section element, backwards -/
theorem sectFlow_inv {env : Env} {h : Hooks} {d : DocKind} {parent tag : Str} {st st' : PSt} {ch : List (Option Str × EInfo)}
    {ms : List Member} {a : Attrs} {c : List Node} {key : Option Str} {si : SectInfo} (ht : tag ∈ Gen.handledTags)
    (hl : leafParent tag = true) (hpar : nestingOK tag "default".toList = false)
    (hch : topOf st.es st.stack = .ok ch) (hms : Pointwise MemberRel ms ch) (hane : si.attr ≠ [])
    (hn : nestingOK parent tag = true)
    (hstart : startHandled env h tag a st =
      (addChild st key (.sect si) >>= fun st' => pure { st' with stack := .sect false false :: st'.stack }))
    (hv : visitElem env h d (some parent) st (.elem tag a c) = .ok st') :
    keyFree ms key = true ∧ attrFree ms si.attr = true ∧ leafBodyOK tag c = true ∧ onceOK (!isComp d) c = true := by
  rw [visitElem_handled hn ht, hstart] at hv
  obtain ⟨st1, hs1, hv⟩ := er_bind_ok hv
  obtain ⟨st2, hs2, _⟩ := er_bind_ok hv
  obtain ⟨st0, hadd, hs1⟩ := er_bind_ok hs1
  obtain ⟨ch', hch', hd1, hd2, hst0⟩ := addChild_ok hadd
  rw [topChildren_eq, hch] at hch'
  injection hch' with hch'
  subst hch'
  simp only [pure, Except.pure, Except.ok.injEq] at hs1
  subst hs1
  obtain ⟨h1, h2, h3⟩ := sectBody_inv (env := env) (h := h) hl hpar st0.stack c _ st2 false false rfl hs2
  exact ⟨notDup_keyFree hms hd1, notDup_attrFree hms hane hd2, h1, onceOK_of_left h2 h3⟩

/-- **a `<section>` element that is read successfully obeys the rules** -/
theorem sectionElem_inv {env : Env} {h : Hooks} {d : DocKind} {parent kt : Str} {names : List Str} {st st' : PSt}
    {ch : List (Option Str × EInfo)} {ms : List Member} {a : Attrs} {c : List Node}
    (hch : topOf st.es st.stack = .ok ch) (hkt : ktOf st.es st.stack = .ok kt) (hnames : st.es.typeNames = names)
    (hms : Pointwise MemberRel ms ch)
    (hv : visitElem env h d (some parent) st (.elem "section".toList a c) = .ok st') :
    nestingOK parent "section".toList = true ∧ sectionOK env (!isComp d) kt names ms false a c = true := by
  have hn := check_nestingOK (visitElem_ok_nesting hv)
  refine ⟨hn, ?_⟩
  have hkt' : topKeytype st = .ok kt := by rw [topKeytype_ktOf]; exact hkt
  have hv0 := hv
  rw [visitElem_handled hn (by decide +kernel), startHandled_section, startSection_eq_obj] at hv0
  obtain ⟨st1, hs1, _⟩ := er_bind_ok hv0
  obtain ⟨p, hobj, _⟩ := er_bind_ok hs1
  obtain ⟨r1, r2, r3, r4, r5, r6, r7, r8⟩ := startSectionObj_ok_rules hkt' hnames hobj
  obtain ⟨si, hsi, hobj'⟩ := startSectionObj_of_rules hkt' hnames r1 r2 r3 r4 r5 r6 r7 r8
  have hane : si.attr ≠ [] := by rw [hsi]; exact attrOf_ne_nil r6 r7
  obtain ⟨rkey, rattr, rbody, ronce⟩ := sectFlow_inv (key := sectKey env kt a) (si := si) (by decide +kernel)
    leafParent_section (by decide +kernel) hch hms hane hn
    (by rw [startHandled_section, startSection_eq_obj, hobj']; rfl) hv
  rw [hsi] at rattr
  unfold sectionOK
  simp only [Bool.and_eq_true, Bool.false_eq_true, ↓reduceIte]
  exact ⟨⟨⟨⟨⟨⟨⟨⟨⟨⟨⟨r1, r2⟩, r3⟩, r4⟩, r5⟩, r6⟩, r7⟩, r8⟩, rkey⟩, rattr⟩, rbody⟩, ronce⟩

/-- **a `<multisection>` element that is read successfully obeys the rules** -/
theorem multisectionElem_inv {env : Env} {h : Hooks} {d : DocKind} {parent kt : Str} {names : List Str} {st st' : PSt}
    {ch : List (Option Str × EInfo)} {ms : List Member} {a : Attrs} {c : List Node}
    (hch : topOf st.es st.stack = .ok ch) (hkt : ktOf st.es st.stack = .ok kt) (hnames : st.es.typeNames = names)
    (hms : Pointwise MemberRel ms ch)
    (hv : visitElem env h d (some parent) st (.elem "multisection".toList a c) = .ok st') :
    nestingOK parent "multisection".toList = true ∧ sectionOK env (!isComp d) kt names ms true a c = true := by
  have hn := check_nestingOK (visitElem_ok_nesting hv)
  refine ⟨hn, ?_⟩
  have hkt' : topKeytype st = .ok kt := by rw [topKeytype_ktOf]; exact hkt
  have hv0 := hv
  rw [visitElem_handled hn (by decide +kernel), startHandled_multisection, startMultisection_eq_obj] at hv0
  obtain ⟨st1, hs1, _⟩ := er_bind_ok hv0
  obtain ⟨p, hobj, _⟩ := er_bind_ok hs1
  obtain ⟨r1, r2, r3, r4, r5, r6, r7, r8⟩ := startMultisectionObj_ok_rules hkt' hnames hobj
  obtain ⟨si, hsi, hobj'⟩ := startMultisectionObj_of_rules hkt' hnames r1 r2 r3 r4 r5 r6 r7 r8
  have hane : si.attr ≠ [] := by rw [hsi]; exact attrOf_ne_nil r6 r7
  obtain ⟨rkey, rattr, rbody, ronce⟩ := sectFlow_inv (key := sectKey env kt a) (si := si) (by decide +kernel)
    leafParent_multisection (by decide +kernel) hch hms hane hn
    (by rw [startHandled_multisection, startMultisection_eq_obj, hobj']; rfl) hv
  rw [hsi] at rattr
  unfold sectionOK
  simp only [Bool.and_eq_true, ↓reduceIte]
  simp only [Bool.and_eq_true] at r8
  exact ⟨⟨⟨⟨⟨⟨⟨⟨⟨⟨⟨r1, r2⟩, r3⟩, r4⟩, r5⟩, r6⟩, r7⟩, r8⟩, rkey⟩, rattr⟩, rbody⟩, ronce⟩

/-- the member elements, uniformly, backwards -/
theorem memberElem_inv {env : Env} {h : Hooks} {d : DocKind} {parent pfx kt : Str} {ps : List Str} {names : List Str} {st st' : PSt}
    {ch : List (Option Str × EInfo)} {ms : List Member} {t : Str} {a : Attrs} {c : List Node}
    (hch : topOf st.es st.stack = .ok ch) (hkt : ktOf st.es st.stack = .ok kt) (hp : st.prefixes = pfx :: ps)
    (hnames : st.es.typeNames = names) (hms : Pointwise MemberRel ms ch)
    (htag : isKeyTag t = true ∨ isSectTag t = true)
    (hv : visitElem env h d (some parent) st (.elem t a c) = .ok st') :
    memberElemOK env (!isComp d) parent pfx kt names ms t a c = true := by
  unfold memberElemOK
  rcases htag with hk | hs
  · rw [if_pos hk]
    rcases isKeyTag_cases hk with rfl | rfl
    · have : ("key".toList == "multikey".toList) = false := by decide +kernel
      rw [this]
      obtain ⟨h1, h2⟩ := keyElem_inv hch hkt hp hms hv
      rw [h1, h2]; rfl
    · have : ("multikey".toList == "multikey".toList) = true := by decide +kernel
      rw [this]
      obtain ⟨h1, h2⟩ := multikeyElem_inv hch hkt hp hms hv
      rw [h1, h2]; rfl
  · rcases isSectTag_cases hs with rfl | rfl
    · have h0 : isKeyTag "section".toList = false := by decide +kernel
      have : ("section".toList == "multisection".toList) = false := by decide +kernel
      rw [h0, this]
      obtain ⟨h1, h2⟩ := sectionElem_inv hch hkt hnames hms hv
      simp only [Bool.false_eq_true, ↓reduceIte, hs, h1, h2, Bool.and_self]
    · have h0 : isKeyTag "multisection".toList = false := by decide +kernel
      have : ("multisection".toList == "multisection".toList) = true := by decide +kernel
      rw [h0, this]
      obtain ⟨h1, h2⟩ := multisectionElem_inv hch hkt hnames hms hv
      simp only [Bool.false_eq_true, ↓reduceIte, hs, h1, h2, Bool.and_self]

end ZCV.SchemaRules
