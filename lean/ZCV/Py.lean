import ZCV.Base
import ZCV.Model.Regex
/-!
Python primitives the GENERATED code (`ZCV/Gen/Code*.lean`, produced by `harness/zcv/pytrans.py`
from the Python AST) is expressed in.  Definitions only, no proofs; lemmas about them live in
`ZCV/Lemmas/PyPrims.lean`.  Together with `ZCV/Base.lean` this file is the trusted base of the
code translation: each primitive mirrors the documented CPython behaviour by hand and is
validated by the "real function vs generated code" correspondence streams (driver `zcdrv2`).
-/
namespace ZCV.Py
open ZCV

/-- the exception classes the translated functions raise (messages are not observables;
    `SubstitutionReplacementError` keeps its two constructor arguments `source`, `name`) -/
inductive PyExc where
  | ValueError
  | TypeError
  | OverflowError
  | IndexError
  | SubstitutionSyntaxError
  | SubstitutionReplacementError (source : Str) (name : Option Str)
  | ConfigurationSyntaxError (url : Option Str) (lineno colno : Option Int) (specifier : Option Str)   -- message dropped
  | Other (cls : Str)      -- any other class, by name (never raised by translated code; target of the models' `other`)
deriving Repr, DecidableEq

/-- socket address families (`socket.AF_UNIX`, `socket.AF_INET`, `socket.AF_INET6`) -/
inductive SockFamily where
  | AF_UNIX | AF_INET | AF_INET6
deriving Repr, DecidableEq

/-- `len(x)` as a Python int -/
def len {α} (xs : List α) : Int := (xs.length : Int)

/-- slice index normalisation (`PySlice_AdjustIndices`, step 1): negative counts from the end, then clamp to `[0, n]` -/
def sliceIdx (n : Nat) (i : Int) : Nat :=
  if i < 0 then ((n : Int) + i).toNat else min i.toNat n

/-- `s[lo:hi]` (either bound may be missing) -/
def slice (s : Str) (lo hi : Option Int) : Str :=
  let a := match lo with | none => 0 | some i => sliceIdx s.length i
  let b := match hi with | none => s.length | some i => sliceIdx s.length i
  (s.take b).drop a

/-- `s.find(c)` for a one-character literal `c`: index of the first occurrence, else -1 -/
def find1 (s : Str) (c : Char) : Int :=
  if s.contains c then ((s.findIdx (· == c) : Nat) : Int) else -1

/-- `s.rsplit(c, 1)` for a one-character literal `c` -/
def rsplit1 (s : Str) (c : Char) : List Str :=
  if s.contains c then [(ZCV.rsplit1 s c).1, (ZCV.rsplit1 s c).2] else [s]

/-- `s.split(c, 1)` for a one-character literal `c` -/
def split1 (s : Str) (c : Char) : List Str :=
  if s.contains c then [s.takeWhile (· != c), (s.dropWhile (· != c)).drop 1] else [s]

/-- `s.split(c)` for a one-character literal `c` -/
def splitOn (s : Str) (c : Char) : List Str :=
  match s with
  | [] => [[]]
  | x :: t =>
    if x == c then [] :: splitOn t c
    else match splitOn t c with
      | w :: ws => (x :: w) :: ws
      | [] => [[x]]

/-- `s.startswith(p, pos)` : indices adjusted as for slices (no upper clamp of `pos`), then a prefix test -/
def startsWithAt (s p : Str) (pos : Int) : Bool :=
  let k := if pos < 0 then ((s.length : Int) + pos).toNat else pos.toNat
  if k + p.length ≤ s.length then (s.drop k).take p.length == p else false

/-- `int(s)` for a `str` argument -/
def int (s : Str) : Except PyExc Int :=
  match pyInt s with
  | some n => .ok n
  | none => .error .ValueError

/-- a match object: subject, start and end of the match (`rx.match(s, pos)` anchors at `pos`) -/
structure Match where
  subject : Str
  start : Nat
  stop : Nat
  caps : Rx.Caps := []      -- what the groups captured
deriving Repr, DecidableEq

/-- `m.group()` / `m.group(0)` -/
def Match.group (m : Match) : Str := (m.subject.drop m.start).take (m.stop - m.start)
/-- `m.group(name)` for the group numbered `i`: `None` when the group did not take part in the match -/
def Match.groupN (m : Match) (i : Nat) : Option Str := Rx.group m.caps i
/-- `m.end()` -/
def Match.end_ (m : Match) : Int := (m.stop : Int)

/-- `rx.match(s, pos)` for a compiled pattern `rx` (the GENERATED `RE` term): `pos` is clamped to `[0, len(s)]`
    (negative positions do not count from the end here); `^` still means the real start of `s` -/
def reMatchAt (r : Rx.RE) (s : Str) (pos : Int) : Option Match :=
  let p := if pos < 0 then 0 else min pos.toNat s.length
  (Rx.pyMatchAt r s p).map fun st => { subject := s, start := p, stop := s.length - st.1.length, caps := st.2 }

/-- `rx.match(s)` -/
def reMatch (r : Rx.RE) (s : Str) : Option Match := reMatchAt r s 0

/-- a Python number as far as the translated code needs it: an `int`, or a `float` kept SYMBOLIC as the literal it was
    converted from (`float(lit)`; no float arithmetic in Lean) -/
inductive Num where
  | int (i : Int)
  | float (lit : Str)
deriving Repr, DecidableEq

/-- `float(s)` for a `str`: which texts are accepted is the parameter `accepts` (the acceptance grammar of the models,
    `DT.floatOk`); the value stays symbolic -/
def float (accepts : Str → Bool) (s : Str) : Except PyExc Num :=
  if accepts s then .ok (.float s) else .error .ValueError

/-- `s[i]` for an integer `i` (negative counts from the end): a one-character string, or `IndexError` -/
def index (s : Str) (i : Int) : Except PyExc Str :=
  let k : Int := if i < 0 then (s.length : Int) + i else i
  if k < 0 then .error .IndexError
  else match s[k.toNat]? with
    | some c => .ok [c]
    | none => .error .IndexError

/-- `datetime.timedelta(weeks=…, days=…, hours=…, minutes=…, seconds=…)`, kept symbolic as its arguments (whether the
    constructor accepts them — range, NaN — is a parameter of the translated `timedelta`) -/
structure Timedelta where
  weeks : Num
  days : Num
  hours : Num
  minutes : Num
  seconds : Num
deriving Repr, DecidableEq

/-- `functools.reduce(f, xs)` without initial value, `f` possibly raising; `TypeError` on an empty sequence -/
def reduceFrom {α} (f : α → α → Except PyExc α) : α → List α → Except PyExc α
  | a, [] => .ok a
  | a, x :: xs =>
    match f a x with
    | .error e => .error e
    | .ok a' => reduceFrom f a' xs
def reduce1 {α} (f : α → α → Except PyExc α) : List α → Except PyExc α
  | [] => .error .TypeError
  | x :: xs => reduceFrom f x xs

end ZCV.Py
