import ZCV.SExp
import ZCV.Codec
import ZCV.Model.Host
/-!
Driver side of the host-parameterised datatypes (`ZCV/Model/Host.lean`): the harness PROBES the host (which of the
candidate paths are directories / files / existing, the `expanduser` image of the argument, which locale names
`setlocale` accepts, whether `datetime.timedelta` accepts the amounts) and sends the answers with the request; the model
is evaluated on the `Host` built from them.  A path or locale name that is not in the tables counts as "no".

* `(hostdt "datatype" "arg" image|none (dirs…) (files…) (exists…) (locales…) t|f)` → `(ok val)` | `(err kind)`
* `(dirname "p")` → `"posixpath.dirname(p)"`
* `(memolocale ("call"…) (locales…))` → `((outcome…) (("key" val)…))`: a fresh `MemoizedConversion(check_locale)`
* `(memoseq (("arg" ok "value") | ("arg" err) …))` → the same for a conversion whose answers are scripted per call
-/
namespace ZCV.CodecHost
open ZCV ZCV.SExp ZCV.Codec ZCV.Cfg

def encConvH : Except ConvErr Val → SExp
  | .ok v => .list [.atom "ok", encVal v]
  | .error .valueError => .list [.atom "err", .atom "ValueError"]
  | .error .typeError => .list [.atom "err", .atom "TypeError"]
  | .error (.other n) => .list [.atom "err", .str n]

def hostOf (arg : Str) (img : Option Str) (dirs files exs locs : List Str) (fits : Bool) : Host where
  isdir p := dirs.contains p
  isfile p := files.contains p
  exists_ p := exs.contains p
  expanduser p := if p == arg then img else some p
  localeOk v := locs.contains v
  tdFits _ := fits

def encMemo (m : DT.Memo Val) : SExp := .list (m.map fun (k, v) => .list [.str k, encVal v])

def bad (op : String) : SExp := .list [.atom "bad-request", .atom op]

def hostdt : List SExp → SExp
  | [.str dt, .str arg, img, dirs, files, exs, locs, fits] =>
    match getOptStr? img, getStrs? dirs, getStrs? files, getStrs? exs, getStrs? locs with
    | some i, some d, some f, some e, some l => encConvH (stockValH (hostOf arg i d f e l (getBool fits)) dt arg)
    | _, _, _, _, _ => bad "hostdt"
  | _ => bad "hostdt"

def memolocale : List SExp → SExp
  | [calls, locs] =>
    match getStrs? calls, getStrs? locs with
    | some cs, some l =>
      let h := hostOf [] none [] [] [] l true
      let r := DT.memoRun (fun v => (DT.checkLocale h v).map Val.str) [] cs
      .list [.list (r.2.map encConvH), encMemo r.1]
    | _, _ => bad "memolocale"
  | _ => bad "memolocale"

def decStep : SExp → Option (Str × Except ConvErr Val)
  | .list [.str a, .atom "ok", .str v] => some (a, .ok (.str v))
  | .list [.str a, .atom "err"] => some (a, .error .valueError)
  | _ => none

def memoseq : List SExp → SExp
  | [.list steps] =>
    match steps.mapM decStep with
    | some ss =>
      let r := ss.foldl (fun (acc : DT.Memo Val × List SExp) (st : Str × Except ConvErr Val) =>
        let o := DT.memoized (fun _ => st.2) acc.1 st.1
        (o.1, acc.2 ++ [encConvH o.2])) ([], [])
      .list [.list r.2, encMemo r.1]
    | none => bad "memoseq"
  | _ => bad "memoseq"

def handle : SExp → Option SExp
  | .list (.atom "hostdt" :: args) => some (hostdt args)
  | .list [.atom "dirname", .str p] => some (.str (DT.dirname p))
  | .list (.atom "memolocale" :: args) => some (memolocale args)
  | .list (.atom "memoseq" :: args) => some (memoseq args)
  | _ => none

end ZCV.CodecHost
