def hello := "world"
