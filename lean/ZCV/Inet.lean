import ZCV.Base
/-!
`inet_pton(AF_INET6, …)` as glibc implements it (resolv/inet_pton.c), re-implemented: this is the *definition* of
"valid IPv6 address" used by both the model of `ipaddr-or-hostname` and its contract.  Modelled, validated against
`socket.inet_pton` by the correspondence check of C09.
-/
namespace ZCV.DT
open ZCV

def isHexDigit (c : Char) : Bool := isAsciiDigit c || inRange 'a' 'f' c || inRange 'A' 'F' c

/-- glibc `inet_pton4` -/
def pton4Go : Str → Bool → Nat → Nat → Bool
  | [], _, octets, _ => octets ≥ 4
  | ch :: r, saw, octets, cur =>
    if isAsciiDigit ch then
      let new := cur * 10 + (ch.toNat - 48)
      if saw && cur == 0 then false
      else if new > 255 then false
      else if !saw then (if octets + 1 > 4 then false else pton4Go r true (octets + 1) new)
      else pton4Go r true octets new
    else if ch == '.' && saw then (if octets == 4 then false else pton4Go r false octets 0)
    else false
def pton4 (s : Str) : Bool := pton4Go s false 0 0

def pton6Finish (tp : Nat) (colon : Bool) (xd : Nat) : Bool :=
  if xd > 0 && tp + 2 > 16 then false
  else
    let tp := if xd > 0 then tp + 2 else tp
    if colon then tp != 16 else tp == 16

/-- glibc `inet_pton6` main loop: `tp` counts bytes written, `colon` = "`::` seen" -/
def pton6Loop : Str → Str → Nat → Bool → Nat → Bool
  | [], _, tp, colon, xd => pton6Finish tp colon xd
  | ch :: r, curtok, tp, colon, xd =>
    if isHexDigit ch then (if xd == 4 then false else pton6Loop r curtok tp colon (xd + 1))
    else if ch == ':' then
      if xd == 0 then (if colon then false else pton6Loop r r tp true 0)
      else if r == [] then false
      else if tp + 2 > 16 then false
      else pton6Loop r r (tp + 2) colon 0
    else if ch == '.' && tp + 4 ≤ 16 && pton4 curtok then pton6Finish (tp + 4) colon 0
    else false

def pton6 (s : Str) : Bool :=
  match s with
  | [] => false
  | ':' :: r => (match r with | ':' :: _ => pton6Loop r r 0 false 0 | _ => false)
  | _ => pton6Loop s s 0 false 0

end ZCV.DT
