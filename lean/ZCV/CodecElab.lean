import ZCV.Codec
import ZCV.Model.Elab
/-! Driver-side codec for the schema-loader model: element trees in, schema objects out (same shape the harness computes
    as the structural digest of a real schema object). -/
namespace ZCV.Codec
open ZCV ZCV.SExp ZCV.Cfg ZCV.Elab

partial def decNode : SExp → Option Node
  | .list [.atom "t", .str s] => some (.text s)
  | .list [.atom "e", .str tag, .list attrs, .list children] => do
    let as ← attrs.mapM fun | .list [.str k, .str v] => some (k, v) | _ => none
    let cs ← children.mapM decNode
    pure (.elem tag as cs)
  | _ => none

def decRegRes : SExp → Option RegRes
  | .list [.atom "found", .str c] => some (.found c)
  | .atom "valueerror" => some .valueError
  | .list [.atom "raises", .atom e] => some (.raises e)
  | _ => none

def decCompRes : SExp → Option CompRes
  | .atom "notimportable" => some .notImportable
  | .atom "notpackage" => some .notPackage
  | .atom "nofile" => some .noFile
  | .list [.atom "doc", t] => (decNode t).map .doc
  | _ => none

def decElabEnv (dotted comps bases : List SExp) : Option Elab.Env := do
  let dt ← dotted.mapM fun | .list [.str n, r] => (decRegRes r).map fun x => (n, x) | _ => none
  let cs ← comps.mapM fun | .list [.str p, .str f, r] => (decCompRes r).map fun x => (p, f, x) | _ => none
  let bs ← bases.mapM fun | .list [.str s, t] => (decNode t).map fun x => (s, x) | _ => none
  pure { conv := stockConv,
         dotted := fun n => match dt.find? (·.1 == n) with | some p => p.2 | none => .raises "ImportError",
         comps := fun p f => match cs.find? (fun e => e.1 == p && e.2.1 == f) with | some e => e.2.2 | none => .notImportable,
         bases := fun s => (bs.find? (·.1 == s)).map (·.2) }

def encVI (v : VI) : SExp := .list [.atom "vi", .str v.value, ofInt v.pos.line, ofOpt .str v.pos.url]

def encDefault : Default → SExp
  | .none => .atom "none"
  | .one v => .list [.atom "one", encVI v]
  | .many vs => .list (.atom "many" :: vs.map encVI)
  | .keyed m => .list (.atom "keyed" :: m.map fun (k, v) => .list [.str k, encVI v])
  | .keyedMany m => .list (.atom "keyedmany" :: m.map fun (k, vs) => .list [.str k, .list (vs.map encVI)])

def encInfo : Info → SExp
  | .key k => .list [.atom "key", .str k.name, .str k.attr, ofBool k.multi, ofNat k.minOccurs, .str k.dt, encDefault k.dflt,
                     ofOpt .str k.handler]
  | .sect s => .list [.atom "sect", .str s.name, .str s.attr, ofBool s.multi, ofNat s.minOccurs, .str s.ty, ofOpt .str s.handler]

def encSType (t : SType) : SExp :=
  .list [.atom "stype", ofOpt .str t.name, .str t.keytype, .str t.datatype,
         .list (t.children.map fun (k, i) => .list [ofOpt .str k, encInfo i])]

def encTypeEntry : TypeEntry → SExp
  | .concrete t => .list [.atom "concrete", encSType t]
  | .abstract_ n subs => .list [.atom "abstract", .str n, ofStrs subs]

def encSchema (s : Schema) : SExp :=
  .list [.atom "schema", .list (s.types.map fun (n, te) => .list [.str n, encTypeEntry te]), encSType s.top,
         ofOpt .str s.handler, ofStrs s.components]

def encEFail : EFail → SExp
  | .schema t => .list [.atom "err", .atom "schema", .str t.toList]
  | .schemaResource t => .list [.atom "err", .atom "schema-resource", .str t.toList]
  | .conversion t => .list [.atom "err", .atom "conversion", .str t.toList]
  | .internal e => .list [.atom "err", .atom "internal", .str e.toList]

end ZCV.Codec
