import ZCV.Base
/-! Minimal S-expressions for the line protocol between the harness and the model driver. -/
namespace ZCV

inductive SExp where
  | atom (s : String)
  | str (s : Str)
  | list (xs : List SExp)
deriving Repr, Inhabited

namespace SExp

def hexDigit (n : Nat) : Char := if n < 10 then Char.ofNat (48 + n) else Char.ofNat (87 + n)
def toHex (n : Nat) : String :=
  if n < 16 then String.singleton (hexDigit n) else toHex (n / 16) ++ String.singleton (hexDigit (n % 16))

def escChar (c : Char) : String :=
  if c == '"' then "\\\"" else if c == '\\' then "\\\\"
  else if c.toNat < 32 || c.toNat > 126 then "\\u{" ++ toHex c.toNat ++ "}"
  else String.singleton c

partial def render : SExp → String
  | .atom s => s
  | .str s => "\"" ++ String.join (s.map escChar) ++ "\""
  | .list xs => "(" ++ " ".intercalate (xs.map render) ++ ")"

def hexVal (c : Char) : Nat :=
  if '0' ≤ c ∧ c ≤ '9' then c.toNat - 48 else if 'a' ≤ c ∧ c ≤ 'f' then c.toNat - 87
  else if 'A' ≤ c ∧ c ≤ 'F' then c.toNat - 55 else 0

/-- parse a string literal body (after the opening quote); returns (content, rest) -/
partial def parseStr : List Char → List Char → Option (Str × List Char)
  | acc, '"' :: r => some (acc.reverse, r)
  | acc, '\\' :: 'u' :: '{' :: r =>
    let hex := r.takeWhile (· != '}')
    let r' := (r.dropWhile (· != '}')).drop 1
    parseStr (Char.ofNat (hex.foldl (fun a c => a * 16 + hexVal c) 0) :: acc) r'
  | acc, '\\' :: c :: r => parseStr (c :: acc) r
  | acc, c :: r => parseStr (c :: acc) r
  | _, [] => none

mutual
partial def parseOne : List Char → Option (SExp × List Char)
  | ' ' :: r => parseOne r
  | '(' :: r => (parseList [] r).map (fun (xs, r') => (.list xs, r'))
  | '"' :: r => (parseStr [] r).map (fun (s, r') => (.str s, r'))
  | ')' :: _ => none
  | [] => none
  | cs =>
    let a := cs.takeWhile (fun c => c != ' ' && c != '(' && c != ')')
    some (.atom (String.ofList a), cs.drop a.length)
partial def parseList : List SExp → List Char → Option (List SExp × List Char)
  | acc, ' ' :: r => parseList acc r
  | acc, ')' :: r => some (acc.reverse, r)
  | _, [] => none
  | acc, cs => match parseOne cs with
    | some (x, r) => parseList (x :: acc) r
    | none => none
end

def parse (s : String) : Option SExp := (parseOne s.toList).map (·.1)

def ofNat (n : Nat) : SExp := .atom (toString n)
def ofInt (n : Int) : SExp := .atom (toString n)
def ofBool (b : Bool) : SExp := .atom (if b then "t" else "f")
def ofOpt {α} (f : α → SExp) : Option α → SExp
  | none => .atom "none"
  | some a => f a
def ofStrs (xs : List Str) : SExp := .list (xs.map .str)

def getStr? : SExp → Option Str | .str s => some s | _ => none
def getNat? : SExp → Option Nat | .atom s => s.toNat? | _ => none
def getInt? : SExp → Option Int | .atom s => s.toInt? | _ => none
def getOptStr? : SExp → Option (Option Str)
  | .atom "none" => some none | .str s => some (some s) | _ => none
def getList? : SExp → Option (List SExp) | .list xs => some xs | _ => none
def getStrs? : SExp → Option (List Str)
  | .list xs => xs.mapM getStr? | _ => none

end SExp
end ZCV
