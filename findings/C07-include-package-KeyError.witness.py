"""C07 witness on the UNCHANGED library: '%include package:.<dir>:<file>' where <dir> is any directory on sys.path
without __init__.py (a PEP 420 namespace package) lets KeyError('') escape from ZConfig.loadConfigFile / loadConfig /
the validator.  Run:  PYTHONPATH=/repo/src /venv/bin/python genuine_witness.py   (exit 1 = property violated)"""
import io, os, shutil, sys, tempfile
import ZConfig

tmp = tempfile.mkdtemp()
os.mkdir(os.path.join(tmp, "plaindir"))          # no __init__.py
sys.path.insert(0, tmp)
schema = ZConfig.loadSchemaFile(io.StringIO("<schema><key name='k' default='1'/></schema>"))
rc = 0
try:
    for text in ("%include package:.plaindir:component.xml\n", "k 2\n%include package:.plaindir:x.conf\n"):
        try:
            ZConfig.loadConfigFile(schema, io.StringIO(text))
            print("accepted?!", repr(text)); rc = 1
        except ZConfig.ConfigurationError as e:
            print("ok (configuration error):", type(e).__name__, "for", repr(text))
        except Exception as e:
            print("VIOLATED: %s(%s) escaped for %r" % (type(e).__name__, e, text)); rc = 1
finally:
    sys.path.remove(tmp)
    shutil.rmtree(tmp, ignore_errors=True)
sys.exit(rc)
