"""C02 witness on the UNCHANGED library: a key, multikey, section or multisection that the schema gives the attribute name
'_name', '_matcher' or '_attributes' (valid identifiers; the schema loader accepts them - it refuses only names starting
with 'getSection') does not hold its declared value: SectionValue.__init__ stores the declared values in the instance
dict and THEN its own three fields under exactly these names, so the declared value is replaced by the section's name,
its matcher object, or the tuple of attribute names.  getSectionAttributes() still lists the attribute.
Run:  PYTHONPATH=/repo/src /venv/bin/python C02-own-field-names.witness.py   (exit 1 = property violated)"""
import io
import sys

import ZConfig

SCHEMA = """<schema>
  <sectiontype name="pt">
    <key name="size" datatype="integer" default="4"/>
    <key name="label" attribute="%s" default="dflt"/>
  </sectiontype>
  <key name="label" attribute="%s" default="dflt"/>
  <multisection type="pt" name="+" attribute="pts"/>
</schema>
"""
TEXT = "label Top\n<pt A>\n  label InA\n</pt>\n<pt b/>\n"

rc = 0
for nm in ("_name", "_matcher", "_attributes", "_type", "_x", "name"):
    schema = ZConfig.loadSchemaFile(io.StringIO(SCHEMA % (nm, nm)))
    conf, _ = ZConfig.loadConfigFile(schema, io.StringIO(TEXT))
    for what, sv, want in (("top level", conf, "Top"), ("<pt a>", conf.pts[0], "InA"), ("<pt b>", conf.pts[1], "dflt")):
        got = getattr(sv, nm)
        listed = nm in sv.getSectionAttributes()
        if got != want or not listed:
            print("VIOLATED: attribute=%r, %s: holds %r, the schema and the text say %r (listed: %s)" % (nm, what, got, want, listed))
            rc = 1
        else:
            print("ok: attribute=%r, %s: %r" % (nm, what, got))
sys.exit(rc)
