import io, sys
import os, tempfile
D = tempfile.mkdtemp(); os.mkdir(os.path.join(D, "zcvpkg14")); open(os.path.join(D, "zcvpkg14", "__init__.py"), "w").close()
open(os.path.join(D, "zcvpkg14", "component.xml"), "w").write("<component><sectiontype name=\"leak\" implements=\"ab0\"><key name=\"k\"/></sectiontype></component>")
sys.path.insert(0, D)
import ZConfig
SCHEMA = "<schema><abstracttype name='ab0'/><multisection type='ab0' name='*' attribute='s_ab0'/><key name='plain'/></schema>"
TEXT = "%import zcvpkg14\n<leak a>\n  k 1\n</leak>\n"
EDITED = "%import zcvpkg14\n<leak a>\n  k 2\n</leak>\n"
def load(text, ov):
    s = ZConfig.loadSchemaFile(io.StringIO(SCHEMA))
    try:
        c, _ = ZConfig.loadConfigFile(s, io.StringIO(text), overrides=ov)
        return ("ok", c.s_ab0[0].k)
    except ZConfig.ConfigurationError as e:
        return ("rejected", type(e).__name__, str(e))
bad = 0
for ov in (["a/k=2"], ["leak/k=2"]):
    got, want = load(TEXT, ov), load(EDITED, [])
    print(ov, "with override:", got, "| edited by hand:", want)
    bad += got != want
sys.exit(1 if bad else 0)
