#!/bin/sh
# offline build of the whole framework: regenerate Gen from /repo, build every theorem and the driver
set -e
cd "$(dirname "$0")"
/venv/bin/python -m harness.zcv.extract
cd lean
lake build ZCV zcdrv zcdrv2
