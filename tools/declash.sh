#!/bin/bash
# usage: tools/declash.sh <prefix> <file-glob...>   — build ZCV; on "environment already contains 'X'" rename X -> <prefix>X in the given files; repeat
cd "$(dirname "$0")/../lean"
P="$1"; shift
for i in $(seq 1 60); do
  out=$(flock .build.lock lake build ZCV zcdrv 2>&1)
  c=$(echo "$out" | grep -o "environment already contains '[^']*' from [A-Za-z.]*" | head -1)
  if [ -z "$c" ]; then echo "$out" | grep -v "^warning\|Hint\|apply\|Note\|^$\|linter\|unused" | tail -6; exit 0; fi
  name=$(echo "$c" | sed "s/.*contains '\([^']*\)'.*/\1/" | sed 's/.*\.//')
  files=$(grep -lw "$name" "$@" 2>/dev/null)
  if [ -z "$files" ]; then echo "cannot resolve clash on $name ($c)"; echo "$out" | grep "import .* failed" | head -2; exit 1; fi
  echo "clash: $name -> $P$name"
  sed -i "s/\b$name\b/$P$name/g" $files
done
