#!/bin/bash
# usage: tools/seedbatch.sh <root of seed dirs, e.g. /tmp/seed/out> [parallelism]
# for every <root>/<Cxx>/<v>/ with patch.diff and no result.json: validate, then run the property's quick check in isolation
ROOT="$1"; PAR="${2:-6}"
cd "$(dirname "$0")/.."
run_one() {
  d="$1"; prop=$(basename "$(dirname "$d")")
  python3 tools/seedrun.py validate "$d" > "$d/validate.json" 2>&1
  python3 tools/seedrun.py check "$d" "$prop" > "$d/result.json" 2>&1
  echo "$d valid=$(grep -c '"valid": true' "$d/validate.json") exit=$(python3 -c "import json,sys;print(json.load(open('$d/result.json'))['$prop']['exit'])" 2>/dev/null)"
}
export -f run_one
find "$ROOT" -name patch.diff | sort | while read p; do d=$(dirname "$p"); [ -f "$d/result.json" ] || echo "$d"; done | xargs -P "$PAR" -I{} bash -c 'run_one {}'
