#!/usr/bin/env python3
"""copies validated seeded changes delivered under <root>/<Cxx>/<letter>/ into /verif/seeded/<Cxx>-<letter>/ with a meta.json
in the format of round 1 (the agent's own meta + what tools/seedrun.py validate/check observed).
usage: tools/seedimport.py <root> [<root> …]"""
import json
import os
import shutil
import sys

here = os.path.dirname(os.path.dirname(os.path.abspath(__file__)))

# what the quick check of the day lacked when the change was delivered (rounds 2 and 3); the generator/harness extension that
# closed the gap is named - every one of these now exits 1 (see check_run in each meta.json)
MISSED = {
    "C01-c": "no schema of the family had a fixed-name slot next to a second concrete type without a slot; added the 'wrong-type-fixed-name' fault",
    "C02-d": "empty-string and blank defaults were never generated; added",
    "C05-c": "braced references with upper-case letters were never generated; added mixed-case ${Name} references",
    "C06-c": "texts were always handed over by absolute path; added the entry points (relative path, URL, open file object with absolute/relative name)",
    "C06-d": "fragments leaving a section open were generated too rarely (flaky); constructed unclosed and stray-close fragments are now part of every run",
    "C07-d": "the validator was only run on one file per invocation; added multi-file runs with valid/invalid files in every order",
    "C10-c": "ill-formed 'required' values were only tried on <key>/<section>; the edit family now covers <multikey>/<multisection>",
    "C11-d": "schemas were always one document; 20% are now delivered as a three-level extends chain in which only the innermost states keytype/datatype",
    "C12-c": "component packages never imported each other; added import cycles between packages",
    "C12-d": "'%import' arguments were always literal; added '%define'd arguments",
    "C13-c": "the schema never imported a component itself; added a schema-imported component followed by further '%import's",
    "C13-d": "datatype names differing only in case were never used; added",
    "C16-d": "handler schemas were never loaded with overrides; added overrides addressing sections with handlers",
    "C17-c": "the schema-less loader was never run after a schema-based load in the same process; added",
    "C18-c": "files were never opened through symbolic links; added",
    "C19-d": "loaders were never reused after a failed '%import'; added the failed-import / good-import / third-load sequence",
    "C01-f": "the same schema object was never loaded twice with '%import' in both texts; added repeated loads with imported types",
    "C02-e": "chain-delivered schemas did not reach the C02 value comparison with a non-default key type; they do now",
    "C05-e": "'%define' names never contained references; added names written with '$x' / '${x}'",
    "C05-f": "every load used a fresh loader; the shared loader call now alternates a reused ConfigLoader, including after failed loads",
    "C06-e": "open-file entry without URL but with absolute '%include', and url=<plain pathname>, were not among the entry points; added ('fileobj-pathurl')",
    "C06-f": "scratch directories never had URL-special characters in their names; every 4th is now named 'c%d q?x#y%41 z'",
    "C08-e": "control characters that str.splitlines() treats as line ends (\\x0c, \\x0b, \\x85, U+2028) never occurred before the culprit line; added",
    "C08-f": "no datatype raised DataConversionError itself; added the 'nested' datatype (a datatype implemented with ZConfig)",
    "C09-f": "non-ASCII characters whose case folding is ASCII (U+FB00, U+017F, U+212A, U+0130) were not in the boolean/keyword probes; added",
    "C11-e": "attribute collisions were only tried within one type; added collisions between an inherited child and a child of the derived type (composed and expanded forms)",
    "C11-f": "'%import' of the same component by two loads on one schema object was not exercised; added",
    "C12-e": "<import src> redefining a type the importing schema already defined was not tried; added",
    "C12-f": "'%import' texts were never loaded with overrides; added",
    "C13-e": "no component derived a type (extends=) from a schema type with keyed defaults under another key type; added the deriving component",
    "C14-f": "override values never contained '='; added",
    "C15-e": "layout variants were never loaded with overrides on keys also present in the text; added",
    "C16-e": "handler loads with '%import' never reused the ConfigLoader; added",
    "C18-e": "<import src> references needing URL interpretation (percent escapes) were not used with open-file entry; added",
    "C18-f": "the same relative path was never loaded twice by one loader after chdir; added",
    "C19-e": "include cycles were not among the failure scenarios; added (self-include and two-file cycle)",
    "C19-f": "schemas with several bases and a failure in one of them were not among the scenarios; added",
    "C20-e": "a factory call was never retried after a failing handler; added the fail-fix-retry sequence",
    "C02-g": "section names never had letters whose case folding differs from lower-casing ('Straße', 'KÜCHE', Cyrillic); free section names now do",
    "C03-g": "the line-shape corpus had no header with such letters; added '<Item Straße>', '<KÜCHE École/>', '<Дом ſ>'",
    "C04-g": "the function was only called directly; added the same strings inside configurations (as a value, in a %define read once and twice)",
    "C05-h": "no environment variable was named like a %define name; every name of the sequences now also exists in the environment",
    "C06-g": "fragment names never differed from their includer's only in letter case; the cutter now makes such twins",
    "C06-h": "an open file was never handed over together with a URL naming another location; added the entry 'open scratch copy + URL of the real place'",
    "C08-h": "faulty texts were never loaded with overrides; a third of them now also with an override restating a top-level key; an exception outside the configuration-error family counts as a missing position",
    "C10-g": "type-name uniqueness was never tried across <import src>; added (local before import, two imports, import before local)",
    "C10-h": "the wildcard rule was only tried with the attribute absent, not with attribute=''; added",
    "C11-g": "schemas were always loaded with the default registry; added an application registry (extra name, replaced stock datatype) with %import / <import> / in-place forms",
    "C11-h": "bases always sat next to the extending schema; added a base in another directory with its own relative references and decoys",
    "C13-h": "the digest did not include the lookup tables behind getinfo() (_keymap/_attrmap); it does now",
    "C14-g": "every load with overrides used a fresh loader; they now alternate with one ExtendedConfigLoader performing the load twice",
    "C15-h": "layout variants never met cased non-ASCII names (see C02-g)",
    "C16-h": "handler callables were always truthy; added callables whose truth value is False",
    "C17-g": "no section name contained '$'; added",
    "C18-g": "fragments were only tried on a single base; added every position of a two- and three-base extends",
    "C19-g": "loads were never ended by something that is not an Exception; added KeyboardInterrupt / SystemExit raised by a datatype, at every depth",
    "C01-i": "an exception outside the configuration-error family on a non-conforming text was left to C07; it is now a violation of C01's last clause as well",
    "C02-j": "no schema of the family gave a section type its own prefix; the prefix scenarios of C11 are now also run for the value tree",
    "C03-i": "texts were only read from streams; a sample (all texts with line-boundary characters, very long lines) is now also read from a file through openResource and compared",
    "C03-j": "'% define', '%\\tinclude', '%Include' were not among the line shapes; added",
    "C04-j": "no environment variable was set to the empty string; some are now",
    "C05-j": "define names with parentheses were never tried; added",
    "C06-j": "the top resource was never named through a symbolic link; added a linked file and a linked directory on the way",
    "C07-j": "directives in other letter case or with a blank after '%' were not among the mutation material; added",
    "C08-j": "unknown / repeated keys always had a value; 40% are now written alone on their line",
    "C10-i": "ill-formed names were only tried on <sectiontype>; added <abstracttype>",
    "C10-j": "'*' was only tried as a <key> name; added <multikey name='*'>",
    "C12-i": "no schema had a key-less implementer that a component could redefine; added (and duplicate EMPTY types in C10)",
    "C12-j": "a component failing half-way with an error that is not a ZConfig error (malformed XML) on a reused loader was only in C19's scenarios; C12 now has its own",
    "C13-i": "the reused-loader history only had a %import failing before the component is read; added components failing while being read",
    "C13-j": "no datatype name was unresolvable at its last part; added, same text twice on one schema",
    "C15-i": "comment lines never contained line-boundary characters in the middle and re-laid-out texts were never read from a file; both added",
    "C15-j": "no line was longer than a few hundred characters and indentation never exceeded three units; added very long comment lines and deep indentation",
    "C17-j": "no line was longer than a few hundred characters; added long lines, indented and unindented inside sections",
    "C18-i": "non-ASCII file names were always precomposed; added decomposed letters (and the check now reports recorded violations when the harness itself crashes later)",
    "C19-j": "the caller's file of the file-object entry points was never checked with a URL argument; added every combination of entry point, content and URL (also with a fragment)",
    "C20-j": "factory.reopen() was never called after a handler had been closed; added",
    "C20-f": "the same logger name was never configured twice with different 'propagate'; added",
    # round 6
    "C02-l": "no accepted text had a key PRESENT WITH THE EMPTY VALUE for a datatype that converts '' (every generated value was non-empty); added empty values, literal and through a reference to an empty %define, in random texts plus two directed texts per schema",
    "C03-k": "no multi-line text had a closer written with blanks before the type ('</ a>') and the alphabet's Unicode-blank class had degenerated to U+0020; added exhaustive bracket spellings (closer behind open sections, opener, empty form) and padded closers/openers in random texts",
    "C07-k": 'no %import / package: reference named a namespace package (or any importable thing other than component, plain package or module); added the %import / %include package: stream over every kind of importable thing, by path, from a stream, through %define and through the validator (this stream also found the genuine defect fixed in 89921d0)',
    "C08-k": "only declared named keys were repeated, never a key of a single-valued arbitrary-key map (<key name='+'>); added the fault kind repeat-arbitrary-key (anywhere later in its container, top level, sections, %include fragments)",
    "C10-k": 'no document had an element among the text of a character-data element (the family wrote no <description> at all); added the character-data placement table with every element inside / after them, in schema documents, components and <import src> documents',
    "C10-l": 'duplicate type names were only tried with a non-derived second definition; added derived sectiontypes taking the name of an earlier plain, abstract or derived type or of their own base, any letter case, in documents, components and <import src>',
    "C11-l": 'no schema had a derived sectiontype without its own prefix under a different effective prefix than its base using relative dotted names; added a generated prefix x extends x component-import family (prefixfam.py) compared with the nearest-enclosing-prefix expansion and the Lean model',
    "C12-k": 'no schema imported a component package itself, so a no-op %import before a new %import never occurred, and the known-finding signature was broad enough to hide an unimported type being accepted; added schema-level imports, enumerated %import sequences with probe loads on one schema object, a tight unimported-type-accepted signature, vocabulary check after every load',
    "C13-l": "no text ever used an %import-ed implementer's section type, least of all in a later load without the %import line, and the schema was replaced after every importing load; added import-use / import-broken then use-unimported operations on the same schema object and two directed histories",
    "C14-l": 'schemas had no handler= attributes and only the configuration half of the load result was compared; added schema streams with handlers and equality of the composite handler (count and delivered (name, value) sequence) between override load and hand-edited load, also against the model',
    "C15-k": "no arbitrary-key line was named like a sibling section, so key/section order never mattered; added namesake keys for containers with a '+' key and named sections",
    "C15-l": 'no section type overrode the inherited key type with inherited key names that are not fixed points of it (the family excluded them); added such schemas as a second stream and faithful inherited-name elaboration',
    "C17-k": "str() was called unguarded, so an exception on an accepted text crashed the check (exit 2), and no nested section repeated an enclosing section's content; added guarded str()/reload reported as C17:str-raises and section chains / random trees over a small pool",
    "C17-l": 'no line began with a non-blank invisible character (U+FEFF ...), none below a comment / blank / section / import line where str() moves it to line 1; added position streams with ten invisible or exotic-blank line starts',
    "C18-k": 'file and directory names never began or ended with a blank; added blank-edged names and roots, neighbour decoys without the blank, and a sweep of every alphabet character at start / inside / end of names as top resource through all entry points',
    "C18-l": "references were only ever written percent-escaped (pathname2url), so no literal '['; added literal and mixed spellings of %include / src / extends references and ordered punctuation pairs inside names ('x[1]y')",
    # round 7
    "C02-m": 'the schema generator never GAVE an attribute name starting with an underscore; added attribute names respelled as arbitrary identifiers (leading / trailing underscores, upper / mixed case) and a directed stream over names a value object might use for its own fields (which exposed the genuine defect C02-own-field-names)',
    "C03-m": "the parser was only driven with identity-compared section objects and schemaless.loadConfigFile was never called by C03; added texts ending inside open sections whose own keys equal / differ from the top level's, parsed through recording contexts with value-equal, all-equal and shared section objects and through schemaless.loadConfigFile",
    "C06-m": "the cut texts never held a lone CR (or any other splitlines / universal-newline 'line end' character) in the middle of a line; added mid-line line-end characters inside values, at the key/value blank and in comments before cutting (files written untranslated, file objects opened with LF-only line ends)",
    "C08-n": "no fault ever made a whole nested SECTION unconvertible through its section type's datatype (the error is placed at the enclosing section's closing line); added the fault kind rejected-section and schemas nesting a checked section type in holder types",
    "C10-m": "the default ATTRIBUTE was never written on a wildcard <key name='+'>; added the full table of default spellings x key kind x named/wildcard x required x container, with verdicts from the property's default rules and the Elab-model comparison",
    "C11-n": 'schema-level extends was four fixed combinations, none stating a key type while inheriting a non-default or conflicting datatype; added a generated family of extends trees (1..3 bases per document, 3 deep, every document stating or inheriting key type and datatype independently) against the merged schema',
    "C13-m": 'no component <import>-ed another component and no history %import-ed outer and inner packages in different orders and subsets on one schema object; added generated worlds of mutually importing packages with multi-load %import histories against a fresh-schema oracle, digest check and history shrinking',
    "C15-m": 'no value (or further %define value) was in its entirety one reference to a mixed-case defined name and references inside values were never re-cased; added whole-value references and the reference-case rewrite',
    "C15-n": "no line ended in a backslash or other 'continuation' mark and blank / comment lines were never inserted after a line or before a closer; added free-text values ending in punctuation (Windows / UNC paths) and filler lines after any item",
    "C17-m": "no url was ever passed to schemaless.loadConfigFile, so no %include argument could resolve against a base; added a directives stream loading %include / %define texts with and without a url, with arguments in every spelling urljoin maps back to the text's own url",
    "C18-n": "no directory or file was ever called exactly '~' or '~<login name>' and named as the first segment of a relative top-resource path; added names that are special as a whole (tilde forms, option- and pattern-like names) in every role of the relative path through all entry points",
    "C20-n": 'no file handler was created or configured with delay and then sent a record before reopenFiles() / closeFiles(); added delay x emit to the registry sequences with a no-open-stream-after-closeFiles oracle and a configured-logfile stream {plain, size, timed} x delay checked on files and streams',
    # round 8
    "C02-p": "a conforming text on which the loader raised something that is no ConfigurationError was skipped (left to C01) and no stream needed a schema object's defaults twice; such an outcome is now a C02 violation with a minimised load-history replay, and a stream of repeated defaulted loads on one schema object (results changed in place between loads) was added",
    "C05-o": 'no two values differed only in letter case; added case-variant values and a re-definition matrix over all ordered value pairs (literal and by reference, across include placements, with a use before and after)',
    "C06-p": 'no line began with a character that decoders treat as a stream-start mark (U+FEFF ...) and no cut started at such a line; added column-0 marks, a steered cut starting at the marked line, and a real-vs-real stream with free-form (string key type) keys',
    "C08-o": 'the unconvertible value text was always unique in the configuration; added the fault kind bad-value-repeated-text (the same text also on accepted key lines of the same or another section, across %include fragments)',
    "C10-o": 'attribute collisions were only tried with an appended key stating the attribute; added every ordered pair of attribute-taking children (key / multikey / section / multisection; own name, other name, wildcard) in schema, section type, derived types, components',
    "C10-p": "extends= / implements= / type= were only written with exact or unknown names; added ill-formed references derived from an existing type's name (blanks, illegal characters, non-ASCII case-mapping relatives such as KELVIN SIGN) at every reference site",
    "C11-p": "no component imported a component with a package name relative to a prefix that is neither its own package nor the schema's; added a nested-import family (single path and diamond) with decoy components under every other reading of the name",
    "C12-o": 'component packages always had flat lower-case ASCII names; added packages under every class of legal importable dotted name (non-ASCII identifiers, mixed case, underscores, sub-packages) and same-class names that are not component packages',
    "C15-o": 'texts never nested more than four sections deep and no section type nested inside itself; added schemas whose types nest without bound and a sweep over every nesting depth 0-136 (and neighbourhoods of round numbers up to 512) around an empty section written both ways',
    "C16-o": 'zero-entry loads were reached but every handler-map experiment was skipped for them; added empty / extra-name / None / case-variant-duplicate maps for entry-less composite handlers (also against the callHandlers model) and schemas with no or few handler attributes',
    "C18-p": 'every reference spelling wrote a blank as %20; added the raw-blank spelling (blank written raw inside %include arguments and src attributes) with decoy files named like the blank-separated pieces',
    "C20-o": 'every level spelling was converted exactly once per process and no configuration carried an out-of-range level; added repeated conversions and level spellings through logger / eventlog / handler sections loaded repeatedly',
    "C20-p": 'a format was loaded with arbitrary-fields off and then on, never off after on; added histories of handler sections sharing style and format with arbitrary-fields on / off / default in every order',
}


def main(roots):
    n = 0
    for root in roots:
        for prop in sorted(os.listdir(root)):
            pd = os.path.join(root, prop)
            if not os.path.isdir(pd):
                continue
            for letter in sorted(os.listdir(pd)):
                d = os.path.join(pd, letter)
                if not os.path.exists(os.path.join(d, "patch.diff")):
                    continue
                try:
                    val = json.load(open(os.path.join(d, "validate.json")))
                    res = json.load(open(os.path.join(d, "result.json")))[prop]
                    am = json.load(open(os.path.join(d, "meta.json")))
                except Exception as e:
                    print("skip", d, type(e).__name__, e)
                    continue
                if not val.get("valid"):
                    print("skip (not valid)", d)
                    continue
                sid = "%s-%s" % (prop, letter)
                out = os.path.join(here, "seeded", sid)
                os.makedirs(out, exist_ok=True)
                shutil.copy(os.path.join(d, "patch.diff"), out)
                shutil.copy(os.path.join(d, "demo.py"), out)
                meta = {
                    "id": sid, "property": prop,
                    "summary": am.get("summary"), "needs_to_manifest": am.get("needs_to_manifest"),
                    "files_changed": am.get("files_changed"),
                    "origin": "written by a sub-agent that was given only the property text and a scratch worktree of /repo (nothing from /verif)",
                    "confirmed": {
                        "how": "tools/seedrun.py validate: patch applied in a scratch worktree, test suite run (353 passed, only the always-failing test_schema_only fails), demo.py run with the patch (exit 1) and on the clean tree (exit 0)",
                        "suite_with_patch": val.get("suite_with_patch"),
                        "demo_with_patch_exit": val["demo_with_patch"][0], "demo_clean_exit": val["demo_clean"][0]},
                    "check_run": {
                        "how": "tools/seedrun.py check <dir> %s (scratch worktree + scratch copy of /verif, ZCV_REPO pointing at the patched tree)" % prop,
                        "command": "./check %s --tier quick" % prop, "exit": res["exit"],
                        "violation_lines": res.get("lines", []),
                        "replay_summaries": list(res.get("replays", {}).values()), "wall_s": res.get("wall_s")},
                    "detected_by_quick_check": res["exit"] == 1 and any(l.startswith("VIOLATION") for l in res.get("lines", [])),
                }
                if am.get("rebased"):
                    meta["rebased"] = am["rebased"]
                if sid in MISSED:
                    meta["initially_missed"] = MISSED[sid]
                old = os.path.join(out, "meta.json")
                if os.path.exists(old):
                    om = json.load(open(old))
                    for k in ("initially_missed", "rebased", "note"):
                        if k in om and k not in meta:
                            meta[k] = om[k]
                json.dump(meta, open(old, "w"), indent=1, ensure_ascii=False)
                n += 1
    print("imported", n)


if __name__ == "__main__":
    main(sys.argv[1:])
