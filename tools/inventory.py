#!/usr/bin/env python3
"""prints the audited theorems per property (the lists in lean/ZCV/Audit/*.lean)"""
import glob, os, re
here = os.path.dirname(os.path.dirname(os.path.abspath(__file__)))
for f in sorted(glob.glob(os.path.join(here, "lean", "ZCV", "Audit", "C*.lean"))):
    names = re.findall(r"#print axioms\s+(\S+)", open(f).read())
    print(os.path.basename(f)[:-5], len(names), " ".join(n.split(".")[-1] for n in names))
