#!/usr/bin/env python3
"""Validate a seeded change and run checks against it, in isolation (never touches /repo or /verif).

usage: tools/seedrun.py validate <seed-dir>
       tools/seedrun.py check <seed-dir> <prop> [<prop> ...] [--tier quick|thorough] [--seed N]

<seed-dir> holds patch.diff and demo.py.  A scratch worktree of /repo (with the patch) and a scratch copy of /verif
(with its Lake build output) are made under /tmp/seedrun/<name>/ and removed afterwards; the checks run there with
ZCV_REPO pointing at the patched worktree.  The registered commands always run in /verif against /repo; this tool is
only how the seeded changes under /verif/seeded were tried out.
"""
import json
import os
import shutil
import subprocess
import sys
import time

VERIF = os.path.dirname(os.path.dirname(os.path.abspath(__file__)))
PY = "/venv/bin/python"


def sh(cmd, cwd=None, env=None, timeout=3600):
    p = subprocess.run(cmd, cwd=cwd, env=env, stdout=subprocess.PIPE, stderr=subprocess.STDOUT, text=True,
                       timeout=timeout, stdin=subprocess.DEVNULL)
    return p.returncode, p.stdout


def worktree(base, patch=None):
    wt = os.path.join(base, "repo")
    rc, out = sh(["git", "-C", "/repo", "worktree", "add", "--detach", wt, "HEAD"])
    if rc:
        raise SystemExit("worktree: " + out)
    if patch:
        rc, out = sh(["git", "-C", wt, "apply", patch])
        if rc:
            drop(base)
            raise SystemExit("patch does not apply: " + out)
    return wt


def drop(base):
    wt = os.path.join(base, "repo")
    if os.path.exists(wt):
        sh(["git", "-C", "/repo", "worktree", "remove", "--force", wt])
    shutil.rmtree(base, ignore_errors=True)
    sh(["git", "-C", "/repo", "worktree", "prune"])


def pyenv(wt):
    env = dict(os.environ)
    env["PYTHONPATH"] = os.path.join(wt, "src")
    env["PYTHONDONTWRITEBYTECODE"] = "1"
    return env


def validate(seed):
    name = os.path.basename(os.path.dirname(seed.rstrip("/"))) + "_" + os.path.basename(seed.rstrip("/"))
    base = "/tmp/seedrun/val_%s_%d" % (name, os.getpid())
    os.makedirs(base)
    res = {}
    try:
        patch = os.path.abspath(os.path.join(seed, "patch.diff"))
        demo = os.path.abspath(os.path.join(seed, "demo.py"))
        wt = worktree(base, patch)
        rc, out = sh([PY, "-m", "pytest", "-q", "-p", "no:cacheprovider", "--timeout=900", "src/ZConfig"], cwd=wt, env=pyenv(wt))
        tail = [l for l in out.strip().split("\n") if "passed" in l or "failed" in l][-1:]
        res["suite_with_patch"] = tail[0] if tail else out[-300:]
        failed = [l for l in out.split("\n") if l.startswith("FAILED")]
        res["suite_failed"] = failed
        rc, out = sh([PY, demo], cwd=base, env=pyenv(wt))
        res["demo_with_patch"] = (rc, out.strip()[-400:])
        sh(["git", "-C", wt, "checkout", "--", "."])
        rc2, out2 = sh([PY, demo], cwd=base, env=pyenv(wt))
        res["demo_clean"] = (rc2, out2.strip()[-200:])
        only_known = all("test_schema_only" in f for f in failed)
        res["valid"] = bool(rc != 0 and rc2 == 0 and only_known and "353 passed" in res["suite_with_patch"])
    finally:
        drop(base)
    print(json.dumps(res, indent=1))
    return 0 if res.get("valid") else 1


def check(seed, props, tier, vseed):
    name = os.path.basename(os.path.dirname(seed.rstrip("/"))) + "_" + os.path.basename(seed.rstrip("/"))
    base = "/tmp/seedrun/chk_%s_%d" % (name, os.getpid())
    os.makedirs(base)
    out_all = {}
    try:
        patch = os.path.abspath(os.path.join(seed, "patch.diff"))
        wt = worktree(base, patch)
        vcopy = os.path.join(base, "verif")
        sh(["rsync", "-a", "--exclude", ".git", "--exclude", "replays", "--exclude", "seeded", "--exclude", "__pycache__",
            VERIF + "/", vcopy + "/"])
        env = pyenv(wt)
        env["ZCV_REPO"] = wt
        if vseed is not None:
            env["VERIF_SEED"] = str(vseed)
        for p in props:
            t0 = time.time()
            rc, out = sh(["./check", p, "--tier", tier], cwd=vcopy, env=env, timeout=7200)
            lines = [l for l in out.split("\n") if l.startswith("VIOLATION") or l.startswith("KNOWN-FINDING")]
            rep = {}
            for l in lines:
                if l.startswith("VIOLATION") and "replay=" in l:
                    rp = l.split("replay=")[1].split()[0]
                    try:
                        r = json.load(open(os.path.join(vcopy, rp)))
                        rep[rp] = {"what": r.get("what"), "signature": r.get("signature"), "kind": r.get("kind"),
                                   "broken": [b.get("name") for b in r.get("broken_obligations", [])][:6]}
                    except Exception as e:  # noqa
                        rep[rp] = str(e)
            out_all[p] = {"exit": rc, "lines": lines, "replays": rep, "wall_s": round(time.time() - t0),
                          "tail": out.strip().split("\n")[-3:] if rc not in (0, 1) else []}
    finally:
        drop(base)
    print(json.dumps(out_all, indent=1))
    return 0


def main():
    a = sys.argv[1:]
    if not a:
        raise SystemExit(__doc__)
    if a[0] == "validate":
        return validate(a[1])
    if a[0] == "check":
        tier, vseed, props = "quick", None, []
        it = iter(a[2:])
        for x in it:
            if x == "--tier":
                tier = next(it)
            elif x == "--seed":
                vseed = next(it)
            else:
                props.append(x)
        return check(a[1], props, tier, vseed)
    raise SystemExit(__doc__)


if __name__ == "__main__":
    sys.exit(main())
