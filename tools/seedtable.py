#!/usr/bin/env python3
"""prints the §11 table of DESIGN.md from seeded/*/meta.json"""
import glob, json, os
here = os.path.dirname(os.path.dirname(os.path.abspath(__file__)))
rows = []
for f in sorted(glob.glob(os.path.join(here, "seeded", "*", "meta.json"))):
    m = json.load(open(f))
    what = (m.get("summary") or "").replace("\n", " ").replace("|", "/")
    what = what[:150] + ("…" if len(what) > 150 else "")
    files = ", ".join(os.path.basename(x) for x in (m.get("files_changed") or []))
    cr = m.get("check_run", {})
    sigs = sorted({(r.get("signature") or r.get("kind") or "?") for r in cr.get("replay_summaries", []) if isinstance(r, dict)})
    det = "yes" if m.get("detected_by_quick_check") else "NO"
    first = "missed at first: " + m["initially_missed"] if m.get("initially_missed") else ""
    rows.append("| %s | %s | %s | %s (%s) | %s |" % (m["id"], files, what, det, "; ".join(sigs)[:90], first))
print("| seeded change | file | what it changes | caught by `./check %s --tier quick` (signature) | note |" % "<prop>")
print("|---|---|---|---|---|")
print("\n".join(rows))
