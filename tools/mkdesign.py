#!/usr/bin/env python3
"""splices the generated parts into DESIGN.md: §0 from tools/design_status.md, §11 (table of seeded changes) from seeded/*/meta.json"""
import os
import subprocess
here = os.path.dirname(os.path.dirname(os.path.abspath(__file__)))
p = os.path.join(here, "DESIGN.md")
s = open(p).read()
status = open(os.path.join(here, "tools", "design_status.md")).read().rstrip() + "\n\n"
i, j = s.index("## §0 STATUS"), s.index("## §1 Why proof")
# keep the separator line that precedes §1
k = s.rfind("\n---", i, j)
s = s[:i] + status + (s[k + 1:j] if k > 0 else "") + s[j:]
table = subprocess.run(["python3", os.path.join(here, "tools", "seedtable.py")], capture_output=True, text=True).stdout
sec = ("## §11 Seeded changes: which check catches what\n\n"
       "Each row is one change to the library written by a sub-agent that saw only the property text and a scratch worktree of the\n"
       "code (never /verif), confirmed here (test suite still passes with it, its demonstration fails with it and passes without), kept\n"
       "under `seeded/<id>/` and run against the property's quick check in isolation (`tools/seedrun.py`: scratch worktree + scratch copy\n"
       "of /verif; nothing is ever applied to /repo).  The signature column is the `signature` of the replay(s) the check wrote; the\n"
       "note column says what the check of the day lacked when the change was first delivered.\n\n" + table + "\n"
       "--------------------------------------------------------------------------------\n\n")
if "## §11 Seeded changes" in s:
    a, b = s.index("## §11 Seeded changes"), s.index("## §12 ")
    s = s[:a] + sec + s[b:]
else:
    b = s.index("## §12 ")
    s = s[:b] + sec + s[b:]
open(p, "w").write(s)
print("DESIGN.md updated:", len(s.splitlines()), "lines")
