#!/venv/bin/python
"""union of the implementation line coverage of all checks: run every quick check with ZCV_COVERAGE=1
ZCV_COVERAGE_SAVE=<dir>, then `tools/covunion.py <dir>` lists, per source file, the statements no check reached.
It shows where the generators do not go; it decides nothing."""
import glob, os, sys
import coverage
d = sys.argv[1]
repo = os.environ.get("ZCV_REPO", "/repo")
cov = coverage.Coverage(data_file=os.path.join(d, "union.cov"), source=[os.path.join(repo, "src", "ZConfig")])
cov.combine(glob.glob(os.path.join(d, "C*.cov")), keep=True)
cov.load()
tot = miss = 0
for root, _, fs in os.walk(os.path.join(repo, "src", "ZConfig")):
    if "/tests" in root:
        continue
    for f in sorted(fs):
        if not f.endswith(".py"):
            continue
        path = os.path.join(root, f)
        try:
            _, ex, _, missing, fmt = cov.analysis2(path)
        except Exception as e:
            print(path, "ERR", e); continue
        tot += len(ex); miss += len(missing)
        print("%-60s %4d/%4d  missing: %s" % (os.path.relpath(path, repo), len(ex) - len(missing), len(ex), fmt))
print("total", tot - miss, "/", tot)
