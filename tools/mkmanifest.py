#!/usr/bin/env python3
"""writes MANIFEST.json from the table below (kept in one place so it stays valid)"""
import json
import os

HERE = os.path.dirname(os.path.abspath(__file__))
VERIF = os.path.dirname(HERE)

def _c(text, note, technique, ref):
    return dict(text=text, note=note, technique=technique, ref=ref)


_CFG_NOTE = ("trusted: Lean kernel; extract.py (regex/table translation) and the Lean regex semantics; the hand-written model "
             "ZCV/Model/{Parser,Matcher,Conv,Datatypes}.lean tied to the code by differential correspondence on the generated schema "
             "family (the schema object itself is tied to the expected elaboration by a structural digest per schema); datatypes "
             "are assumed pure and ValueError-failing.")

_TIE = ("Tie to the code on every run: lean/ZCV/Gen regenerated from /repo (live regexes, tables), theorems re-checked, axioms "
        "audited; the hand-written models run side by side with the real code on generated inputs (distribution in the evidence).")

CLAIMED = {
    "C01": _c("PROVED for the model, all schemas satisfying schemaOK and all configuration trees/texts of any size and depth: "
              "C01_accept_iff_conforms, C01_nonconforming_rejected, C01_text_accept_iff_conforms (through the parser model; texts without "
              "%import/overrides); C10_elab_schemaOK shows every loadable schema document satisfies schemaOK. Correspondence: schema family "
              "x texts x 23 fault kinds (random and one unmasked text per kind and schema), real loader vs model vs conforms.",
              _CFG_NOTE, "Lean 4 proof (loader model = declarative conforms, unbounded) + differential correspondence model/implementation", "§0.2, §7 C01"),
    "C02": _c("PROVED: C02_value_eq_denote / C02_text_value_eq_denote (the configuration returned is the declarative value tree denote, for all "
              "schemaOK schemas and all trees/texts), C02_attrs_exact. Value trees of accepted texts compared with the model and with denote.",
              _CFG_NOTE, "Lean 4 proof (value = denote, unbounded) + differential correspondence on value trees", "§0.2, §7 C02"),
    "C03": _c("PROVED for every line and every text: the generated patterns and the dispatch classify each line as the documented grammar does "
              "(C03_classify_eq_spec); a text is accepted iff its classified lines are the pre-order listing of a forest (C03_accept_iff_nested), "
              "events are that forest's pre-order, otherwise a syntax error at the first line that cannot be completed (C03_reject_is_syntax). "
              "Exhaustive lines/short texts and random texts through a recording context on the real parser.",
              "trusted: Lean kernel; extract.py; regex semantics; str.strip/lower tables.",
              "Lean 4 proof (model = line grammar + tree grammar, unbounded) + regenerated regexes + exhaustive differential correspondence", "§0.2, §7 C03"),
    "C04": _c("PROVED: C04_substitute_eq_spec (model of substitute/_split with the Python index arithmetic and the generated _name_match = the "
              "documented replacement function, every mapping, environment and string) with corollaries; exhaustive/random correspondence of "
              "model, spec and real substitute/isname. The Python SOURCE of substitute/_split/isname is translated to Lean on every run (pytrans, "
              "DESIGN §13) and PROVED equal to the model (C04_code_*_eq), hence to the documented function (C04_code_substitute_eq_spec); the "
              "real functions also run against the generated code.",
              "trusted: Lean kernel; extract.py regex translation; Lean regex semantics vs CPython sre on the subset; List.take/drop/findIdx standing for Python slicing/find; os.getenv = os.environ lookup.",
              "Lean 4 proof (model = spec) + translator-regenerated regex + differential correspondence", "§0.2, §7 C04"),
    "C05": _c("PROVED: the define step (C05_define_ok_iff, C05_define_eq_spec), whole texts (C05_text_eq_spec: parse = the specification fold incl. "
              "error kind and line; C05_use_sees_only_earlier; C05_case_insensitive; C05_shared_with_includes; C05_fresh_per_load). "
              "All directive sequences of the quantifier against a reference fold, each run twice.",
              _CFG_NOTE, "Lean 4 proof (define fold, unbounded) + exhaustive sequence enumeration against a reference fold", "§0.2, §7 C05"),
    "C06": _c("PROVED: C06_include_eq_inline (any lines A F B with F balanced: same events, definitions, open sections or both rejected; any "
              "context state), C06_load_include_eq_inline / _rejected_iff (the LOADER gives the same value tree or rejects both; nested and $-argument forms), unbalanced fragments rejected. Real vs real: inline text vs 1..3 cuts (nested; same/sub/parent dir; through a "
              "%define-d absolute dir/URL; one fragment reached twice / diamond), four ways of naming the top resource, entry by path / URL / open file (own name, relative name, path as URL, scratch copy + URL), fragment names differing from the includer only in case, plus model.",
              _CFG_NOTE + " URL resolution table computed with urllib only.", "Lean 4 proof (include = inline) + metamorphic real-vs-real + correspondence", "§0.2, §7 C06"),
    "C07": _c("PROVED: C07_no_internal (the loader model never ends in an internal exception, for all texts, override lists and include graphs, "
              "under schemaWF / well-formed packages / a resolvable environment of <= 64 resources; a closed counterexample for each hypothesis), "
              "C07_schemaless_no_internal, and for the validator command C07_validator_exit / _status_zero_iff / _on_loads (status 0 or 1 and one message per "
              "invalid file, derived from C07_no_internal on a model of its loop). Direct oracle on the real code: mutated texts, unmasked faults, mutated overrides, "
              "include graphs, 50 %include argument classes by path and from a stream without URL, validator runs in several file orders vs the model loop.",
              _CFG_NOTE, "Lean 4 proof (no internal outcome, unbounded) + fault/mutation exploration of the real entry points", "§0.2, §7 C07"),
    "C08": _c("PROVED (25 theorems): a failing parse has a unique culprit (resource, line) in this or an included resource; every line-bound error "
              "carries that line and URL (exact exceptions: %import errors, refused %include); the <type/> form behaves as <type></type> on errors; "
              "conversion errors carry the text and the recorded position. Exploration: 15 fault kinds at known culprit lines, in the main "
              "resource and inside %include fragments at any depth.",
              _CFG_NOTE, "Lean 4 proof (culprit position, unbounded) + fault injection with known culprit", "§0.2, §7 C08"),
    "C09": _c("PROVED for all strings, per datatype: model (through generated patterns, word tuples, bounds, suffix tables) = documented contract "
              "(over 120 audited theorems: basic-key, identifier, dotted-name, dotted-suffix, boolean, port-number, byte-size, time-interval, inet-address, "
              "socket-address, ipaddr-or-hostname exact with a declarative IPv6 text grammar proved equal to the inet_pton re-implementation, "
              "integer and float literal grammars, string-list, timedelta incl. the TypeError carve-out; key types idempotent; the six host-dependent "
              "types — existing-directory/-path/-file/-dirpath, locale behind MemoizedConversion, timedelta's constructor — over a Host parameter "
              "(os.path.dirname modelled exactly, MemoizedConversion transparent for every call sequence, failures not cached); C09_total_all: totality "
              "of the complete 26-name table for every host). Exhaustive/probe correspondence for every stock datatype; the host-dependent ones on a "
              "scratch tree / HOME / cwd / probed locales, real vs contract-from-probes vs model on the probed host table. "
              "The Python SOURCE of 17 of these conversions is translated to Lean on every run (pytrans, DESIGN §13) and PROVED equal to the model for "
              "all arguments (37 C09_code_* theorems: code = model, code = contract); the real conversions also run against the generated code.",
              "trusted: Lean kernel; extract.py and pytrans.py (the translators); regex semantics; pyInt/lower/strip models; glibc inet_pton6 re-implementation (compared with socket.inet_pton on every probe); "
              "host parameters: os.path.isdir/isfile/exists/expanduser, setlocale acceptance, datetime.timedelta's numeric verdict (probed on every run).",
              "Lean 4 proof (model = contract per datatype) + regenerated patterns/tables + exhaustive correspondence", "§0.2, §7 C09"),
    "C10": _c("Model ZCV/Model/Elab.lean of schema.py + info.py (schema loading from the XML element tree, components, base schemas). PROVED: "
              "one theorem per static rule (50: unique type names, unique keys/attributes incl. inherited, defined before use, extends concrete / "
              "implements abstract, wildcard rules, multisection names, no default on required, default keying and collisions, required values, "
              "nesting table, stray text, well-formed names) and C10_elab_schemaOK (every accepted document yields a schema object satisfying the "
              "invariant the configuration-loading theorems assume: nothing is left for load time), and the EXACT characterisation C10_accepted_iff_rules / _iff_rules_imports: a document (standalone, or importing components to any depth) is accepted if and only if it satisfies the declarative judgement DocRules (Spec/SchemaRules.lean: one named rule per clause of the property). Correspondence: every generated document and "
              "every rule-violating edit (~3 000 per quick run): real loadSchemaFile vs the model (accept/reject, exception class, equal schema object).",
              "trusted: Lean kernel; extract.py (nesting table, tag tuples); XML text -> element tree is expat's job (not modelled); the datatype registry's view of dotted names and package importability are probed on the interpreter and given to the model as tables.",
              "Lean 4 proof (per-rule theorems + schema invariant on the schema-loader model) + differential correspondence", "§0.2, §7 C10"),
    "C11": _c("PROVED on the schema-loader model (21 theorems): C11_extends_partial (a document using extends and its written-out expansion give the "
              "same schema or the same error, chains of any length, for documents without imports/prefixes/key-type overrides; closed counterexample for "
              "the key-type override = known finding), what `extends` inherits (keys, sections, key type / datatype unless overridden, "
              "wildcard defaults re-normalised from the raw keys, implements not inherited), prefix composition, import-once incl. cycles. "
              "The whole-document equation composed = expanded is decided by running both through the real loader (and both through the model): "
              "extends chains, prefixes 3 deep, 1..3 base schemas incl. a chain of three, components once / repeated / diamond / mutually importing / self-importing.",
              "trusted: as C10; the mechanical expansion is computed by the harness from the statement.",
              "Lean 4 proof (composition lemmas on the model) + metamorphic real-vs-real + model correspondence", "§0.2, §7 C11"),
    "C12": _c("PROVED (55 theorems): text level with %import lines anywhere at top level: the loader accepts iff the text conforms to the schema in force at each position and returns denoteI (C12_text_accept_iff_conformsI, C12_text_value_eq_denoteI);  C12_slot_admits_iff (an abstract slot admits a header iff it is the first claimant and the type is a recorded "
              "implementer), fixed-name slots, extender is not implementer, %import idempotent / adds exactly the declared implementers / refused "
              "classes / visible only after its line; the this-load-only clause is false on the pinned tree (closed counterexample = known finding); on the faithful "
              "history function (ZCV/Model/History.lean) the vocabulary of the schema object survives every history and what a slot admits afterwards is "
              "stated exactly (C12_history_keeps_vocabulary, C12_slot_after_history_admits_iff, two-load witness C12_leak_admits_non_implementer). "
              "Exploration: worlds with abstract '*' and fixed-name slots, packages (also importing each other), %import through %define, 4-load histories.",
              _CFG_NOTE + " package import machinery is outside the model.", "Lean 4 proof (slot admission, unbounded) + reference-oracle exploration over histories", "§0.2, §7 C12"),
    "C13": _c("PROVED: no import-free parse or load changes the schema (C13_load_without_import_keeps_schema), C13_history_independent for import-free "
              "histories of any length; for EVERY history (with %import, failing loads, half-read components) on the faithful history function runHistoryApp: "
              "the schema object afterwards is the schema with the history's addsubtype calls applied and nothing else (C13_history_exact, "
              "C13_history_changes_only_implementers), tables only grow and only by declared implementers of imported components, unchanged iff no call adds a name "
              "(C13_history_independent_iff_no_leak), later loads depend on the leak only, a load that imports the leaking components first is independent of it "
              "(C13_importing_first_absorbs_the_leak); the leak itself = known finding. Tie: driver op histapp vs the digest of the real schema object and the outcome after every load of histories with %import. Exploration: operation sequences on one "
              "schema object vs fresh copies, structural digest after every operation, mutation of results, directed histories (schema-level "
              "import, dotted datatype names differing in case, reused loader after a failed %import).",
              _CFG_NOTE, "Lean 4 proof (frame/history theorems) + history exploration with structural digest", "§0.2, §7 C13"),
    "C14": _c("PROVED (23 theorems): C14_override_eq_edit (loading with overrides = loading the text edited as the statement says, exact equality of "
              "outcomes incl. errors at tree level, for all schemas/trees/override lists; text level for outcomes), verbatim values, unknown "
              "section / key not allowed rejected, bad value is a conversion error, specifier syntax. Real-with-overrides vs real-on-edited-text vs model.",
              _CFG_NOTE, "Lean 4 proof (override = edit, unbounded) + metamorphic real-vs-real", "§0.2, §7 C14"),
    "C15": _c("PROVED (29 theorems): strip invariance, blank/comment insertion (any context), letter case of headers / closers / define names / "
              "references / keys, <t/> = <t></t>, permutation of lines of different keys (adjacent swaps, general), at line, tree and load level. "
              "Canonical vs rewritten rendering of the same item tree, real vs real, incl. shipped components and re-definitions.",
              _CFG_NOTE, "Lean 4 proof (layout invariance, unbounded) + metamorphic real-vs-real", "§0.2, §7 C15"),
    "C16": _c("PROVED (19 theorems): the handler list = post-order of handler-bearing items with the values denote puts there (C16_handlers_postorder, "
              "text level too), its length, and for a hand-written model of CompositeHandler.__call__: exactly once, None skipped, all-or-nothing. "
              "Exploration on the real code: post-order reference, None, callables whose truth value is False, missing names, any two spellings of one name, loads with overrides.",
              _CFG_NOTE + " The small model of __call__ lives in a proof file and is tied to the code through the driver (random handler maps, verdict and call sequence compared).",
              "Lean 4 proof (post-order, unbounded) + reference post-order oracle on the real handler", "§0.2, §7 C16"),
    "C17": _c("PROVED (14 theorems): C17_roundtrip (printing any well-formed tree and loading it gives the tree back up to key order; literally for "
              "sorted keys), C17_print_stable, C17_loaded_is_wf, value round trip through '$$', %define/%include refused; counterexamples for "
              "values obtained from environment variables (known finding). load/str/reload/str on the real code and the model.",
              "trusted: Lean kernel; model ZCV/Model/Schemaless.lean tied by correspondence (tree and str() output compared exactly).",
              "Lean 4 proof (round trip, unbounded) + round-trip exploration with model correspondence", "§0.2, §7 C17"),
    "C18": _c("PROVED (22 theorems): C18_isPath_spec (generated _pathsep_rx as isPath uses it, all strings), urlnormalize normal form / idempotence; on a "
              "general model of urllib's urlsplit/urljoin/urldefrag/quote/unquote and the ZConfig.url wrappers (compared with the real library on ~27 000 "
              "strings x 10 functions per run): quoting round trip for every path, the entry points yield the same URL, joining = lexical resolution against "
              "the containing directory, nested joins compose. The operating-system part is explored: exhaustive strings through isPath/urlnormalize/urljoin/urldefrag; scratch trees with decoys, four "
              "entry points x every cwd, reused loaders, fragment-carrying references rejected in every position.",
              "trusted: Lean kernel; extract.py; regex semantics; urllib.parse/pathname2url and the OS (explored, not proved).",
              "Lean 4 proof (URL algebra) + exhaustive correspondence + scratch-tree exploration", "§0.2, §7 C18"),
    "C19": _c("PROVED: C19_all_closed / C19_open_close_count over a model of the `with openResource` discipline for every include tree and every "
              "fault set; on the graph model (schema graphs with several bases, <import>, components, %import, the loaders' state) C19_all_closed2, "
              "C19_stream_closed_at_once, C19_active_restored (every outcome), C19_failed_import_restores, C19_marks_justified, C19_no_fault_ok2, and closed "
              "counterexamples for what does not hold. Real traces (tracking Resource class, wrapped urlopen) vs the model for include trees x every single failure point; one "
              "loader object reused and the corrected files re-loaded after each failure; random resource graphs with single faults followed by the corrected files on the same loader: outcome, events and loader state vs the graph model; failing components; loads ended by KeyboardInterrupt/SystemExit.",
              "trusted: Lean kernel; the hand-written models ZCV/Model/Resources.lean and Resources2.lean tied by trace correspondence; in-process instrumentation of urlopen/Resource.",
              "Lean 4 proof (well-bracketed traces for all graphs/faults) + fault enumeration with trace correspondence", "§0.2, §7 C19"),
    "C20": _c("PROVED (75 theorems): level table/range/case-insensitivity, the registry invariants for ALL operation sequences (reopen/close act on exactly the "
              "live handlers), the complete handler decision table, factory idempotence and logger set-up on a model of factory.py/logger.py, and for the "
              "classic style: accepted iff every item is a known field with a conversion valid for its type, accepted => the formatter builds and an ordinary "
              "record formats without raising (model of CPython's str % mapping incl. the 4300-digit int limit; compared with the real loader incl. exception class); the same for the template and safe-template styles (model of string.Template and logging's validation) and, for plain fields, the format style (model of string.Formatter / str.format field access, conversions and format specs; beyond plain fields the statement is false on the real code: three listed findings with closed counterexamples). Exploration of the real component: level spellings, logfile option "
              "matrix vs model, produced loggers, factory idempotence, format strings of four styles, registry operation sequences vs model.",
              "trusted: Lean kernel; extract.py; models ZCV/Model/Logger.lean tied by correspondence; rendering by logging, streams, files, weakref timing are outside the model.",
              "Lean 4 proof (decision logic) + exploration of the real component with model correspondence", "§0.2, §7 C20"),
}

NOT_YET = {}


def main():
    props = [json.loads(l) for l in open(os.path.join(VERIF, "properties.jsonl"))]
    checks = []
    na = []
    for p in props:
        i = p["id"]
        if i in CLAIMED:
            c = CLAIMED[i]
            checks.append({
                "property_id": i,
                "quick_cmd": "./check %s --tier quick" % i,
                "thorough_cmd": "./check %s --tier thorough" % i,
                "evidence_file": "evidence/%s.json" % i,
                "replay_cmd_template": "./check %s --replay {path}" % i,
                "engine": "zcv-lean",
                "level_claimed": {"category": "proof", "text": c["text"], "design_ref": c["ref"]},
                "level_note": c["note"],
                "technique": c["technique"],
            })
        else:
            na.append({"property_id": i, "reason": NOT_YET.get(i, "check not built yet in this round (machinery under construction; see DESIGN.md §10) — not a statement that the technique cannot apply")})
    m = {
        "version": 1,
        "setup_cmd": "./setup.sh",
        "hooks": {"guard": "ZCONFIG_VERIF", "enable": "no hooks are needed: checks import /repo/src in-process",
                  "baseline_off_cmd": "cd /repo && /venv/bin/python -m pytest -ra -q -p no:cacheprovider --timeout=900 src/ZConfig",
                  "source_commits": [], "add_only": True},
        "engines": [{"name": "zcv-lean", "path": "lean", "serves_properties": sorted(CLAIMED),
                     "kind_free_text": "Lean 4 Lake package ZCV (Spec/Model/Gen/Lemmas/Props) + compiled model driver zcdrv + Python correspondence harness harness/zcv"}],
        "checks": checks,
        "not_applicable": na,
        "notes": "See DESIGN.md. Every check regenerates lean/ZCV/Gen from /repo, rebuilds the property's theorems, audits axioms, then runs model/spec/implementation side by side.",
    }
    with open(os.path.join(VERIF, "MANIFEST.json"), "w") as f:
        json.dump(m, f, indent=1)
        f.write("\n")


if __name__ == "__main__":
    main()
