#!/usr/bin/env python3
"""writes MANIFEST.json from the table below (kept in one place so it stays valid)"""
import json
import os

HERE = os.path.dirname(os.path.abspath(__file__))
VERIF = os.path.dirname(HERE)

def _c(text, note, technique, ref):
    return dict(text=text, note=note, technique=technique, ref=ref)


_CFG_NOTE = ("trusted: Lean kernel; extract.py (regex/table translation) and the Lean regex semantics; the hand-written model "
             "ZCV/Model/{Parser,Matcher,Conv,Datatypes}.lean tied to the code by differential correspondence on the generated schema "
             "family (the schema object itself is tied to the expected elaboration by a structural digest per schema); datatypes "
             "are assumed pure and ValueError-failing.")

CLAIMED = {
    "C01": _c("Theorems about the model of matcher.py/info.py (key routing = declared key else wildcard key; unknown key rejected; "
              "slot name rule). The full accept<->conforms statement is decided on the generated family by running the real loader "
              "against the model on every text (accept/reject observable), with shrinking; not yet proved for all schemas x texts.",
              _CFG_NOTE, "Lean 4 proof (partial: per-function theorems) + differential correspondence model/implementation", "§7 C01"),
    "C02": _c("Theorem C02_attrs_exact (every section value exposes exactly its type's attributes in schema order, with its type and "
              "name); value trees of accepted texts compared attribute by attribute with the model's.",
              _CFG_NOTE, "Lean 4 proof (partial) + differential correspondence on value trees", "§7 C02"),
    "C03": _c("Theorems C03_keyvalue_rx_spec, C03_section_rx_spec, C03_classify_eq_spec: the generated patterns and the per-line "
              "dispatch of parse() classify EVERY line exactly as the documented grammar does; nesting checked by exhaustive/random "
              "texts through a recording context on the real parser.",
              "trusted: Lean kernel; extract.py; regex semantics; str.strip/lower tables; nesting (stack discipline) validated by correspondence, not yet a theorem.",
              "Lean 4 proof (model = spec for line classification) + regenerated regexes + exhaustive differential correspondence", "§7 C03"),
    "C04": _c("Lean 4 theorem C04_substitute_eq_spec: the model of substitute/_split (Python index arithmetic, generated "
              "_name_match pattern) equals the documented replacement function for every mapping, environment and string; "
              "tie = regenerated regex term + exhaustive/random correspondence of model, spec and real substitute/isname.",
              "trusted: Lean kernel; extract.py regex translation; Lean regex semantics vs CPython sre on the subset; "
              "List.take/drop/findIdx standing for Python slicing/find; os.getenv = os.environ lookup.",
              "Lean 4 proof (model = spec) + translator-regenerated regex + differential correspondence", "§7 C04"),
    "C05": _c("Theorems C05_define_ok_iff / C05_define_effect / C05_redefine_keeps_value on the model of handle_define (accepted iff legal "
              "name, value expands with earlier definitions, name new or equal expanded value; write-once); exhaustive directive "
              "sequences against a reference fold of the statement, each run twice.",
              _CFG_NOTE, "Lean 4 proof (define step) + exhaustive sequence enumeration against a reference fold", "§7 C05"),
    "C06": _c("Real-vs-real metamorphic check (inline text vs the same text with 1..3 balanced ranges cut into %include fragments on a "
              "scratch tree, nested, three placements) plus model correspondence; theorem(s) on the parser model: a fragment leaving "
              "a section open is rejected; include = inline for the event stream (when the agent-proved lemma is merged).",
              _CFG_NOTE + " URL resolution table computed with urllib only.", "Lean 4 proof (partial) + metamorphic real-vs-real + correspondence", "§7 C06"),
    "C07": _c("Direct oracle: any exception outside the configuration-error family escaping load entry points over mutated texts, "
              "mutated override lists and include graphs (cyclic included), plus validator status; theorem C07_lineShape_no_internal "
              "(with the generated directive tuple no line can reach a missing handler).",
              _CFG_NOTE, "Lean 4 proof (partial) + fault/mutation exploration with the model predicting internal errors", "§7 C07"),
    "C08": _c("Culprit line known by construction for 15 fault kinds injected into accepted texts; theorems on the model's fix-up sites "
              "(every error leaving a key line or a closing line carries a line number; the line and URL are the current ones when the "
              "error brought none).",
              _CFG_NOTE, "Lean 4 proof (fix-up sites) + fault injection with known culprit", "§7 C08"),
    "C09": _c("Twelve theorems: the model of each stock conversion (through generated patterns, word tuples, bounds, suffix tables) "
              "equals its documented contract for ALL strings (basic-key, identifier, dotted-name, dotted-suffix, boolean, port-number, "
              "byte-size, time-interval, inet-address, socket-address) and key types are idempotent; ipaddr-or-hostname, integer, "
              "string-list, float acceptance by exhaustive/probe correspondence against contract and model.",
              "trusted: Lean kernel; extract.py; regex semantics; pyInt/lower/strip models; glibc inet_pton6 re-implementation (compared with socket.inet_pton on every probe).",
              "Lean 4 proof (model = contract per datatype) + regenerated patterns/tables + exhaustive correspondence", "§7 C09"),
    "C12": _c("Theorems: an abstract slot admits a concrete type only if it is a recorded implementer; the abstract type itself is "
              "refused. Statement-level line-by-line reference over generated worlds with packages, histories of 4 loads.",
              _CFG_NOTE + " package import machinery is outside the model.", "Lean 4 proof (slot admission) + reference-oracle exploration over histories", "§7 C12"),
    "C13": _c("Theorems: opening/closing sections and adding values never change the schema (only %import does). Histories of up to 8 "
              "operations against one schema object compared with fresh copies; structural digest after every operation.",
              _CFG_NOTE, "Lean 4 proof (frame lemmas) + history exploration with structural digest", "§7 C13"),
    "C14": _c("Theorems on addOption (refused iff no '=' or empty path component; value verbatim). Real load with overrides vs real load "
              "of the hand-edited text (edit written from the statement) + model correspondence.",
              _CFG_NOTE, "Lean 4 proof (specifier syntax) + metamorphic real-vs-real (override = edit)", "§7 C14"),
    "C15": _c("Theorems C15_strip_invariant (any str.isspace padding), C15_empty_form_equiv (<t/> = <t></t> for every context). "
              "Canonical vs randomly re-laid-out rendering of the same item tree, real vs real, incl. shipped components.",
              _CFG_NOTE, "Lean 4 proof (strip / empty-form invariance) + metamorphic real-vs-real", "§7 C15"),
    "C16": _c("Theorem C16_stop_appends_own_entries (closing a section appends exactly its own handler entries in schema order after all "
              "earlier ones). Reference post-order from text + value tree; complete / None / incomplete / duplicate maps.",
              _CFG_NOTE, "Lean 4 proof (append order) + reference post-order oracle", "§7 C16"),
    "C17": _c("Theorems C17_value_roundtrip (str() doubles '$'; re-reading gives the value back for every value), C17_define_refused. "
              "load/str/reload/str on the real code and on the model over the C03 corpus + hard cases.",
              "trusted: Lean kernel; model ZCV/Model/Schemaless.lean tied by correspondence (tree and str() output compared exactly).",
              "Lean 4 proof (value round trip) + round-trip exploration with model correspondence", "§7 C17"),
    "C18": _c("Theorems C18_isPath_spec (the generated _pathsep_rx as isPath uses it = 'a scheme of >= 2 characters precedes the first colon', "
              "all strings), C18_urlnormalize_form / _idempotent / _fixed. Exhaustive strings through isPath/urlnormalize/urljoin/urldefrag; "
              "real scratch trees with decoys, four ways of naming the top resource, every cwd, reused loaders.",
              "trusted: Lean kernel; extract.py; regex semantics; urllib.parse/pathname2url and the OS (explored, not proved).",
              "Lean 4 proof (URL algebra) + exhaustive correspondence + scratch-tree exploration", "§7 C18"),
    "C19": _c("Theorems C19_all_closed / C19_open_close_count over a model of the `with openResource` discipline for every resource graph and "
              "every fault set; real traces (tracking Resource class, wrapped urlopen) compared with the model's for include trees x every "
              "single failure point; schema graphs and %import by direct oracle.",
              "trusted: Lean kernel; the hand-written model ZCV/Model/Resources.lean tied by trace correspondence; in-process instrumentation of urlopen/Resource.",
              "Lean 4 proof (well-bracketed traces for all graphs/faults) + fault enumeration with trace correspondence", "§7 C19"),
    "C20": _c("Theorems C20_level_spec (generated table + bounds = documented function, all strings), C20_level_range, "
              "C20_std_stream_options_refused, C20_rotation_requires_old_files, C20_closeFiles_closes_all_registered. Exploration of the real "
              "component: level spellings, logfile option matrix vs model, produced loggers, factory idempotence, format strings of four "
              "styles (accepted => buildable and formats), registry operation sequences vs model.",
              "trusted: Lean kernel; extract.py; models ZCV/Model/Logger.lean tied by correspondence; rendering by logging/str.format/string.Template, streams, files, weakref timing are outside the model.",
              "Lean 4 proof (decision logic) + exploration of the real component with model correspondence", "§7 C20"),
}

NOT_YET = {"C10": "check built (rule-violating edits with rule-based oracle, digest vs expected elaboration); its Lean model of the schema loader (elab) is being validated - claimed once merged",
           "C11": "check built (composition vs expansion, real vs real); its Lean theorems depend on the elab model - claimed once merged"}


def main():
    props = [json.loads(l) for l in open(os.path.join(VERIF, "properties.jsonl"))]
    checks = []
    na = []
    for p in props:
        i = p["id"]
        if i in CLAIMED:
            c = CLAIMED[i]
            checks.append({
                "property_id": i,
                "quick_cmd": "./check %s --tier quick" % i,
                "thorough_cmd": "./check %s --tier thorough" % i,
                "evidence_file": "evidence/%s.json" % i,
                "replay_cmd_template": "./check %s --replay {path}" % i,
                "engine": "zcv-lean",
                "level_claimed": {"category": "proof", "text": c["text"], "design_ref": c["ref"]},
                "level_note": c["note"],
                "technique": c["technique"],
            })
        else:
            na.append({"property_id": i, "reason": NOT_YET.get(i, "check not built yet in this round (machinery under construction; see DESIGN.md §10) — not a statement that the technique cannot apply")})
    m = {
        "version": 1,
        "setup_cmd": "./setup.sh",
        "hooks": {"guard": "ZCONFIG_VERIF", "enable": "no hooks are needed: checks import /repo/src in-process",
                  "baseline_off_cmd": "cd /repo && /venv/bin/python -m pytest -ra -q -p no:cacheprovider --timeout=900 src/ZConfig",
                  "source_commits": [], "add_only": True},
        "engines": [{"name": "zcv-lean", "path": "lean", "serves_properties": sorted(CLAIMED),
                     "kind_free_text": "Lean 4 Lake package ZCV (Spec/Model/Gen/Lemmas/Props) + compiled model driver zcdrv + Python correspondence harness harness/zcv"}],
        "checks": checks,
        "not_applicable": na,
        "notes": "See DESIGN.md. Every check regenerates lean/ZCV/Gen from /repo, rebuilds the property's theorems, audits axioms, then runs model/spec/implementation side by side.",
    }
    with open(os.path.join(VERIF, "MANIFEST.json"), "w") as f:
        json.dump(m, f, indent=1)
        f.write("\n")


if __name__ == "__main__":
    main()
