#!/usr/bin/env python3
"""writes MANIFEST.json from the table below (kept in one place so it stays valid)"""
import json
import os

HERE = os.path.dirname(os.path.abspath(__file__))
VERIF = os.path.dirname(HERE)

CLAIMED = {
    "C04": dict(
        text="Lean 4 theorem C04_substitute_eq_spec: the model of substitute/_split (Python index arithmetic, generated "
             "_name_match pattern) equals the documented replacement function for every mapping, environment and string; "
             "tie = regenerated regex term + exhaustive/random correspondence of model, spec and real substitute/isname.",
        note="trusted: Lean kernel; extract.py regex translation; Lean regex semantics vs CPython sre on the subset; "
             "List.take/drop/findIdx standing for Python slicing/find; os.getenv = os.environ lookup.",
        technique="Lean 4 proof (model = spec) + translator-regenerated regex + differential correspondence",
        ref="§7 C04"),
}

NOT_YET = {}


def main():
    props = [json.loads(l) for l in open(os.path.join(VERIF, "properties.jsonl"))]
    checks = []
    na = []
    for p in props:
        i = p["id"]
        if i in CLAIMED:
            c = CLAIMED[i]
            checks.append({
                "property_id": i,
                "quick_cmd": "./check %s --tier quick" % i,
                "thorough_cmd": "./check %s --tier thorough" % i,
                "evidence_file": "evidence/%s.json" % i,
                "replay_cmd_template": "./check %s --replay {path}" % i,
                "engine": "zcv-lean",
                "level_claimed": {"category": "proof", "text": c["text"], "design_ref": c["ref"]},
                "level_note": c["note"],
                "technique": c["technique"],
            })
        else:
            na.append({"property_id": i, "reason": NOT_YET.get(i, "check not built yet in this round (machinery under construction; see DESIGN.md §10) — not a statement that the technique cannot apply")})
    m = {
        "version": 1,
        "setup_cmd": "./setup.sh",
        "hooks": {"guard": "ZCONFIG_VERIF", "enable": "no hooks are needed: checks import /repo/src in-process",
                  "baseline_off_cmd": "cd /repo && /venv/bin/python -m pytest -ra -q -p no:cacheprovider --timeout=900 src/ZConfig",
                  "source_commits": [], "add_only": True},
        "engines": [{"name": "zcv-lean", "path": "lean", "serves_properties": sorted(CLAIMED),
                     "kind_free_text": "Lean 4 Lake package ZCV (Spec/Model/Gen/Lemmas/Props) + compiled model driver zcdrv + Python correspondence harness harness/zcv"}],
        "checks": checks,
        "not_applicable": na,
        "notes": "See DESIGN.md. Every check regenerates lean/ZCV/Gen from /repo, rebuilds the property's theorems, audits axioms, then runs model/spec/implementation side by side.",
    }
    with open(os.path.join(VERIF, "MANIFEST.json"), "w") as f:
        json.dump(m, f, indent=1)
        f.write("\n")


if __name__ == "__main__":
    main()
