#!/bin/sh
# run every registered quick check (sequentially: they share the Lake build lock) and summarise
cd "$(dirname "$0")/.."
for id in $(python3 -c "import json;print(' '.join(c['property_id'] for c in json.load(open('MANIFEST.json'))['checks']))"); do
  s=$(date +%s)
  out=$(./check $id --tier ${1:-quick} 2>&1 | grep -v "^KNOWN-FINDING" | tail -2)
  rc=$?
  echo "$id rc=$(./check_rc 2>/dev/null) $(( $(date +%s) - s ))s $out"
done
