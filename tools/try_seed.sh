#!/bin/sh
# usage: tools/try_seed.sh <patch.diff> <prop> [tier]   — apply to /repo, run the check, undo
set -u
P="$1"; ID="$2"; TIER="${3:-quick}"
cd /verif
git -C /repo apply "$P" || { echo "patch does not apply"; exit 3; }
./check "$ID" --tier "$TIER"; RC=$?
git -C /repo checkout -- .
# restore generated files / build for the clean tree
/venv/bin/python -m harness.zcv.extract >/dev/null 2>&1
echo "check exit=$RC"
exit 0
